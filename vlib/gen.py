"""Seeded workload generators (run inside worker processes; may import bldfm)."""

import math
import zlib

import numpy as np

KAPPA = 0.4
G_MAX = 18.0  # conditioning guard for linear shooting (DESIGN section 3)


def rng_for(seed, *tags):
    ints = [int(seed) & 0xFFFFFFFF]
    for t in tags:
        if isinstance(t, (int, np.integer)):
            ints.append(int(t) & 0xFFFFFFFF)
        else:
            ints.append(zlib.crc32(str(t).encode()))
    return np.random.default_rng(ints)


# --------------------------------------------------------------------------- sources


def make_source(rng, ny, nx, kind=None):
    kind = kind or rng.choice(["dense", "sparse", "smooth", "impulse", "blob", "sink", "near_uniform"])
    if kind == "dense":
        q = rng.normal(size=(ny, nx))
    elif kind == "sparse":
        q = np.zeros((ny, nx))
        for _ in range(int(rng.integers(1, 6))):
            q[rng.integers(ny), rng.integers(nx)] = rng.normal() * 10 ** rng.uniform(-2, 2)
    elif kind == "smooth":
        y, x = np.mgrid[0:ny, 0:nx]
        q = np.zeros((ny, nx))
        for _ in range(3):
            a, b = rng.integers(0, 3, size=2)
            q += rng.normal() * np.cos(2 * np.pi * (a * x / nx + b * y / ny) + rng.uniform(0, 6.28))
    elif kind == "impulse":
        q = np.zeros((ny, nx))
        q[rng.integers(ny), rng.integers(nx)] = 1.0
    elif kind == "blob":
        y, x = np.mgrid[0:ny, 0:nx]
        cx, cy = rng.uniform(0, nx), rng.uniform(0, ny)
        q = np.where(np.abs(x - cx) + np.abs(y - cy) < max(nx, ny) / 4.0, 1.0, 0.0)
        if not q.any():
            q[ny // 2, nx // 2] = 1.0
    elif kind == "sink":  # no positive cell at all (deposition / uptake field)
        q = -np.abs(rng.normal(size=(ny, nx))) * (rng.random((ny, nx)) < 0.5)
        if not q.any():
            q[ny // 2, nx // 2] = -1.0
    elif kind == "near_uniform":  # a uniform flux with a weak pattern on top (relative 1e-6 .. 1e-4)
        q = 1.0 + float(10 ** rng.uniform(-6, -4)) * rng.normal(size=(ny, nx))
    else:
        raise ValueError(kind)
    # magnitude: the solution is linear in the source, so every relation must hold as well for fluxes of 1e-10 (nmol-scale values in
    # SI units) or 1e+8 as for O(1) numbers
    u = rng.random()
    if u < 0.2:
        q = q * float(10 ** rng.uniform(-12, -8))
        kind = f"{kind}*tiny"
    elif u < 0.28:
        q = q * float(10 ** rng.uniform(5, 9))
        kind = f"{kind}*huge"
    return q, str(kind)


# --------------------------------------------------------------------------- similarity functions (harness's own)


def phi_m(x):
    """Businger-Dyer momentum flux-gradient function."""
    x = np.asarray(x, dtype=float)
    return np.where(x > 0, 1 + 5 * x, (1 - 16 * np.minimum(x, 0)) ** -0.25)


def phi_c(x):
    x = np.asarray(x, dtype=float)
    return np.where(x > 0, 1 + 5 * x, (1 - 16 * np.minimum(x, 0)) ** -0.5)


def psi_m(x):
    """Integral of (phi_m(t)-1)/t dt from 0 to x, closed form (sign convention of
    the repository: u = u*/k (ln(z/z0) + psi))."""
    x = np.asarray(x, dtype=float)
    xi = (1 - 16 * np.minimum(x, 0)) ** 0.25
    un = -2 * np.log((1 + xi) / 2) - np.log((1 + xi**2) / 2) + 2 * np.arctan(xi) - np.pi / 2
    return np.where(x > 0, 5 * x, un)


# --------------------------------------------------------------------------- closed-form profile families


class Family:
    """Smooth positive profiles u, v, Kx, Ky, Kz as closed-form functions of z."""

    def __init__(self, desc):
        self.d = desc

    @staticmethod
    def draw(rng, zm, z0):
        d = {
            "wind": str(rng.choice(["log", "power", "most_stable", "most_unstable", "const"])),
            "K": str(rng.choice(["linear", "power", "most", "const"])),
            "ustar": float(rng.uniform(0.15, 0.8)),
            "theta": float(rng.uniform(0, 2 * np.pi)),
            "ax": float(rng.uniform(0.3, 3.0)),
            "ay": float(rng.uniform(0.3, 3.0)),
            "m": float(rng.uniform(0.1, 0.4)),
            "n": float(rng.uniform(0.5, 1.2)),
            "L": float(rng.choice([-1, 1]) * 10 ** rng.uniform(1.0, 3.0)),
            "zm": float(zm),
            "z0r": float(z0 * rng.uniform(0.2, 0.9)),
            "Uref": float(rng.uniform(1.0, 8.0)),
        }
        # wind direction turning with height (Ekman-like veering): theta(z) = theta + veer * z / zm; 0 for most families
        d["veer"] = float(rng.uniform(-1.2, 1.2)) if rng.random() < 0.35 else 0.0
        # anisotropy that depends on height: Kx = ax K (z/zm)^ex, Ky = ay K (z/zm)^ey (0 for most families); or a horizontal
        # diffusivity that does not change with height at all while Kz does
        ua = rng.random()
        d["ex"], d["ey"], d["kx_const"] = 0.0, 0.0, False
        if ua < 0.2:
            d["ex"], d["ey"] = float(rng.uniform(-0.4, 0.4)), float(rng.uniform(-0.4, 0.4))
        elif ua < 0.3:
            d["kx_const"] = True
        return Family(d)

    def __call__(self, z):
        d = self.d
        z = np.asarray(z, dtype=float)
        us, zm = d["ustar"], d["zm"]
        L = d["L"]
        if d["wind"] == "log":
            U = us / KAPPA * np.log(z / d["z0r"])
        elif d["wind"] == "power":
            U = d["Uref"] * (z / zm) ** d["m"]
        elif d["wind"] == "most_stable":
            U = us / KAPPA * (np.log(z / d["z0r"]) + psi_m(z / abs(L)) - psi_m(d["z0r"] / abs(L)))
        elif d["wind"] == "most_unstable":
            U = us / KAPPA * (np.log(z / d["z0r"]) + psi_m(-z / abs(L)) - psi_m(-d["z0r"] / abs(L)))
        else:
            U = d["Uref"] * np.ones_like(z)
        if d["K"] == "linear":
            K = KAPPA * us * z
        elif d["K"] == "power":
            K = KAPPA * us * zm * (z / zm) ** d["n"]
        elif d["K"] == "most":
            K = KAPPA * us * z / phi_c(z / L)
        else:
            K = KAPPA * us * zm * np.ones_like(z)
        th = d["theta"] + d.get("veer", 0.0) * z / zm
        Kxz = d["ax"] * K * (z / zm) ** d.get("ex", 0.0)
        Kyz = d["ay"] * K * (z / zm) ** d.get("ey", 0.0)
        if d.get("kx_const"):
            Kxz = d["ax"] * KAPPA * us * zm * np.ones_like(z)
        return (U * np.cos(th), U * np.sin(th), Kxz, Kyz, K)

    @property
    def height_dependent(self):
        return not (self.d["wind"] == "const" and self.d["K"] == "const")


def vgrid(kind, z0, ztop, n, zm=None):
    """n layers (n+1 nodes) from z0 to ztop."""
    if kind == "uniform":
        return np.linspace(z0, ztop, n + 1)
    if kind == "geometric":
        return z0 * (ztop / z0) ** (np.arange(n + 1) / n)
    if kind in ("expmap", "expmap_weak"):  # the repository's mapping, h = ztop; "weak": h = 2000 ztop (successive layers differ by ~1e-6)
        h = ztop if kind == "expmap" else 2000.0 * ztop
        zeta = np.linspace(0.0, 1.0, n + 1)
        a, b = math.exp(-z0 / h), math.exp(-ztop / h)
        return -h * np.log(a - zeta * (a - b))
    raise ValueError(kind)


# --------------------------------------------------------------------------- conditioning


def wavenumbers(nx, ny, dx, dy, px, py, modes):
    nxe, nye = nx + 2 * px, ny + 2 * py
    nlx, nly = modes
    if nlx > nxe or nly > nye:
        nlx, nly = nxe, nye
    kx = np.pi * nlx / (dx * nxe)  # largest retained |kx|
    ky = np.pi * nly / (dy * nye)
    return kx, ky, (nlx, nly), (nxe, nye)


def growth(z, profiles, kx, ky):
    """G = sum_i Re sqrt(-T_i/Kz_i) dz_i, worst over the corner wavenumbers."""
    u, v, Kx, Ky, Kz = [np.asarray(a, dtype=float) for a in profiles]
    dz = np.diff(z)
    best = 0.0
    for sx, sy in ((1, 1), (1, -1), (1, 0), (0, 1)):
        a, b = sx * kx, sy * ky
        T = -(Kx[:-1] * a * a + Ky[:-1] * b * b) - 1j * (u[:-1] * a + v[:-1] * b)
        lam = np.sqrt(-T / Kz[:-1])
        best = max(best, float(np.sum(np.abs(lam.real) * dz)))
    return best


CR_MAX = 2e4


def conductance_ratio(z, profiles):
    Kz = np.asarray(profiles[4], dtype=float)
    r = np.diff(z) / Kz[:-1]
    return float(np.max(r) / np.min(r))


def resolved(z, profiles, kx, ky):
    """max_i |T_i| dz_i^2 / Kz_i at the corner wavenumbers."""
    u, v, Kx, Ky, Kz = [np.asarray(a, dtype=float) for a in profiles]
    dz = np.diff(z)
    best = 0.0
    for sx, sy in ((1, 1), (1, -1), (1, 0), (0, 1)):
        a, b = sx * kx, sy * ky
        T = -(Kx[:-1] * a * a + Ky[:-1] * b * b) - 1j * (u[:-1] * a + v[:-1] * b)
        best = max(best, float(np.max(np.abs(T) * dz * dz / Kz[:-1])))
    return best


# --------------------------------------------------------------------------- solver set-ups

HALO_CLASSES = ("zero", "none", "sub", "comm", "comm_x", "incomm")


def draw_halo(rng, cls, dx, dy, a, b, base, xmax, ymax):
    """halo width of the requested class; dx = base*a, dy = base*b."""
    if cls == "zero":
        return 0.0
    if cls == "none":
        return None
    if cls == "sub":
        return float(min(dx, dy) * rng.uniform(0.1, 0.9))
    l = base * (a * b // math.gcd(a, b))
    if cls == "comm":
        return float(l * rng.integers(1, 3))
    if cls == "comm_x":
        # multiple of dx, not of dy
        for k in range(1, 12):
            h = dx * k
            if abs(h / dy - round(h / dy)) > 1e-6:
                return float(h)
        return float(dx * 1.0)
    if cls == "incomm":
        h = float(max(dx, dy) * rng.uniform(1.1, 3.9))
        if abs(h / dx - round(h / dx)) < 0.05 or abs(h / dy - round(h / dy)) < 0.05:
            h += 0.37 * min(dx, dy)
        return h
    raise ValueError(cls)


def halo_class_of(halo, dx, dy, xmax, ymax):
    """Classify a halo by what it does (after resolving the default)."""
    h = max(xmax, ymax) if halo is None else halo
    rx, ry = h / dx, h / dy
    cx = abs(rx - round(rx)) < 1e-9
    cy = abs(ry - round(ry)) < 1e-9
    if h == 0:
        return "zero"
    if int(rx) == 0 and int(ry) == 0:
        return "sub"
    if cx and cy:
        return "commensurate"
    if cx or cy:
        return "commensurate_one_axis"
    return "incommensurate"


def draw_profiles(rng, kind, nz_layers, zm, closures=("MOST", "MOSTM", "CONSTANT", "OAAHOC")):
    """(z, profiles, desc).  kind: 'closure' | 'synthetic' | 'constant'."""
    from bldfm.pbl_model import vertical_profiles

    if kind == "closure":
        closure = str(rng.choice(list(closures)))
        ws = float(rng.uniform(1.5, 8.0))
        wd = float(rng.uniform(0, 360))
        u, v = -ws * math.sin(math.radians(wd)), -ws * math.cos(math.radians(wd))
        ustar = float(ws * rng.uniform(0.06, 0.14))
        L = float(rng.choice([-1, 1]) * 10 ** rng.uniform(1.0, 4.0))
        kw = dict(ustar=ustar, mol=L, closure=closure)
        if closure != "OAAHOC" and not (zm * math.exp(-KAPPA * ws / ustar + float(psi_m(zm / L))) < 0.3 * zm):
            raise ValueError("derived z0 not below z_m")
        if closure == "OAAHOC":
            kw["tke"] = float(rng.uniform(0.3, 2.0))
        z, prof = vertical_profiles(nz_layers, zm, (u, v), **kw)
        desc = dict(kind=kind, closure=closure, ws=ws, wd=wd, ustar=ustar, L=L, n=nz_layers, zm=zm, **({"tke": kw["tke"]} if "tke" in kw else {}))
        return z, tuple(np.asarray(p, dtype=float) for p in prof), desc
    if kind == "synthetic":
        z0 = float(zm * 10 ** rng.uniform(-2.5, -0.7))
        fam = Family.draw(rng, zm, z0)
        g = str(rng.choice(["uniform", "geometric", "expmap"]))
        z = vgrid(g, z0, zm * float(rng.uniform(1.0, 2.0)), nz_layers)
        if rng.random() < 0.15:
            # a wind that turns with height and blows exactly along x at the top node only (v[-1] == 0.0, non-zero below)
            fam.d["veer"] = float(rng.choice([-1, 1]) * rng.uniform(0.2, 1.2))
            fam.d["theta"] = -(fam.d["veer"] * float(z[-1]) / fam.d["zm"])
        return z, fam(z), dict(kind=kind, grid=g, z0=z0, **fam.d)
    if kind == "constant":
        z0 = float(zm * 10 ** rng.uniform(-2.0, -0.7))
        g = str(rng.choice(["uniform", "geometric"]))
        z = vgrid(g, z0, zm, nz_layers)
        U = float(rng.uniform(0.5, 8.0))
        th = float(rng.uniform(0, 2 * np.pi))
        K = float(rng.uniform(0.2, 3.0))
        ax, ay = float(rng.uniform(0.3, 3)), float(rng.uniform(0.3, 3))
        one = np.ones(len(z))
        prof = (U * math.cos(th) * one, U * math.sin(th) * one, ax * K * one, ay * K * one, K * one)
        return z, prof, dict(kind=kind, grid=g, U=U, theta=th, K=K, ax=ax, ay=ay, z0=z0, zm=zm)
    raise ValueError(kind)


def draw_setup(
    rng,
    *,
    halo_classes=HALO_CLASSES,
    profile_kinds=("closure", "synthetic", "constant"),
    mode_classes=("full", "trunc", "over", "mixed"),
    nmin=4,
    nmax=24,
    even=True,
    nzmin=3,
    nzmax=24,
    gmax=G_MAX,
    tries=40,
):
    """Draw a solver set-up inside the conditioning guard.  Returns (S, nskip)."""
    skipped = 0
    for _ in range(tries):
        nx = int(rng.integers(nmin, nmax + 1))
        ny = int(rng.integers(nmin, nmax + 1))
        if even:
            nx += nx % 2
            ny += ny % 2
        a, b = rng.choice([2, 3, 4, 5], size=2, replace=False)
        a, b = int(a), int(b)
        zm = float(rng.uniform(2.0, 30.0))
        base = zm * float(rng.uniform(0.12, 0.9))
        if int(base * 1e6) % 3 == 0:
            # a third of the grids have cell sizes that are multiples of 1/16 m: every grid coordinate is then exactly a float32 number
            # too, which lets the call path hand measurement points over as single-precision values
            base = max(round(base * 16), 1) / 16
        dx, dy = base * a, base * b
        xmax, ymax = dx * nx, dy * ny
        dx, dy = xmax / nx, ymax / ny  # exactly the solver's own arithmetic (pad widths are int(halo/dx))
        hc = str(rng.choice(list(halo_classes)))
        halo = draw_halo(rng, hc, dx, dy, a, b, base, xmax, ymax)
        heff = max(xmax, ymax) if halo is None else halo
        px, py = int(heff / dx), int(heff / dy)
        nxe, nye = nx + 2 * px, ny + 2 * py
        if nxe * nye > 160 * 160:
            skipped += 1
            continue
        mc = str(rng.choice(list(mode_classes)))
        if (nxe % 2 or nye % 2) and mc != "over":
            mc = "over"
        if mc == "mixed":  # every mode of the padded grid along one axis, a truncated count along the other
            mx = max(2, nxe - 2 * int(rng.integers(1, max(2, nxe // 3))))
            my = max(2, nye - 2 * int(rng.integers(1, max(2, nye // 3))))
            modes = (nxe, my) if rng.random() < 0.5 else (mx, nye)
        elif mc == "full":
            modes = (nxe, nye)
        elif mc == "over":
            modes = (nxe + 2 * int(rng.integers(0, 4)) + nxe % 2, nye + 2 * int(rng.integers(0, 4)) + nye % 2)
        else:
            mx = max(2, nxe - 2 * int(rng.integers(1, max(2, nxe // 3))))
            my = max(2, nye - 2 * int(rng.integers(1, max(2, nye // 3))))
            modes = (mx, my)
        nzl = int(rng.integers(nzmin, nzmax + 1))
        kind = str(rng.choice(list(profile_kinds)))
        try:
            with np.errstate(all="ignore"):
                z, prof, pdesc = draw_profiles(rng, kind, nzl, zm)
        except (IndexError, ValueError, FloatingPointError):
            # derived roughness length not below the measurement height: outside every property's quantifier
            skipped += 1
            continue
        if not (len(z) >= 3 and np.all(np.isfinite(z)) and np.all(np.diff(z) > 0) and all(np.all(np.isfinite(p)) for p in prof) and np.all(prof[4] > 0)):
            skipped += 1
            continue
        if kind == "synthetic" and rng.random() < 0.15 and not np.allclose(prof[2], prof[3]):
            # horizontal diffusivities that differ through the column and are capped at one common value at the last node (what is
            # true of the top node is not true of the column)
            kx_, ky_ = np.array(prof[2], dtype=float), np.array(prof[3], dtype=float)
            kx_[-1] = ky_[-1] = 0.5 * (kx_[-1] + ky_[-1])
            prof = (prof[0], prof[1], kx_, ky_, prof[4])
            pdesc = dict(pdesc, horizontal_diffusivities_equal_at_top_node=True)
        kx, ky, _, _ = wavenumbers(nx, ny, dx, dy, px, py, modes)
        G = growth(z, prof, kx, ky)
        if G > gmax:
            skipped += 1
            continue
        # second conditioning guard: ratio of the largest to the smallest layer resistance dz/Kz.  The flux rounding error of
        # linear shooting grows with it (measured on 8000 set-ups: resid/(eps e^G) = 1, 5, 10, 120, 220 for cr < 1e1 .. 1e6; a
        # roughness length of 1e-7 z_m gives cr = 1e7 and a flux accurate to 2e-4 only) - columns beyond 1e5 are not drawn
        cr = conductance_ratio(z, prof)
        if cr > CR_MAX:
            skipped += 1
            continue
        S = dict(
            nx=nx, ny=ny, dx=dx, dy=dy, domain=(xmax, ymax), halo=halo, halo_class=halo_class_of(halo, dx, dy, xmax, ymax),
            px=px, py=py, nxe=nxe, nye=nye, modes=modes, mode_class=mc, z=z, profiles=prof, pdesc=pdesc, G=G, cr=cr, zm=zm,
        )
        return S, skipped
    return None, skipped


def describe(S):
    """JSON-able summary of a set-up (for evidence samples)."""
    return dict(
        nx=S["nx"], ny=S["ny"], dx=round(S["dx"], 6), dy=round(S["dy"], 6), halo=S["halo"], halo_class=S["halo_class"],
        pad=(S["px"], S["py"]), modes=S["modes"], mode_class=S["mode_class"], nz=len(S["z"]), G=round(S["G"], 3), cr=float("%.3g" % S.get("cr", 0)),
        profiles=S["pdesc"],
    )


def gbucket(G):
    return "G<6" if G < 6 else "G<12" if G < 12 else "G<=18"
