"""Run (part of) the repository's own test suite with the harness's postconditions installed."""

import json
import os
import subprocess
import sys

from . import boot


def run_repo_tests(prop, files, timeout=1500):
    """Returns a run_case-style result for property `prop` from the tests in `files` (names under /repo/tests)."""
    out = os.path.abspath(f"monitor_{prop}.json")
    tests = [str(boot.REPO / "tests" / f) for f in files]
    env = dict(os.environ, VERIF_MONITOR_OUT=out)
    r = subprocess.run([sys.executable, "-m", "pytest", "-q", "-p", "no:cacheprovider", "-p", "vlib.pytest_monitors", "--timeout=900",
                        "-o", "addopts=", *tests], capture_output=True, text=True, timeout=timeout, env=env)
    if not os.path.exists(out):
        return {"harness_error": "pytest under monitors produced no monitor report: " + (r.stdout[-400:] + r.stderr[-400:])}
    rep = json.load(open(out))
    summary = [l for l in r.stdout.splitlines() if " passed" in l or " failed" in l or " error" in l][-1:] or [""]
    viol = [v for v in rep["violations"] if v.get("property") == prop]
    harness = [v for v in rep["violations"] if v.get("property") == "harness"]
    n = int(rep["evals"].get(prop, 0))
    res = {"evals": n, "nontrivial": n > 0, "sig": [f"repo_tests|{prop}|{i}" for i in range(min(n, 50))],
           "buckets": {"hook:repo_tests_under_monitors": 1},
           "counters": {"postcondition_evaluations_under_repo_tests": n},
           "violations": [dict(v, source="postcondition under the repository's own tests") for v in viol],
           "sample": {"repo_tests": files, "pytest_summary": summary[0], "postcondition_evaluations": rep["evals"]}}
    if harness:
        res["harness_error"] = "postcondition raised internally: " + json.dumps(harness[:2])
    if n == 0:
        res["harness_error"] = "postcondition never evaluated under the repository's tests (alias not rebound?)"
    return res


# ------------------------------------------------------------------------------------------------------------------------------
# shadow oracles (vlib.shadow) under the repository's own tests and example scripts

EXAMPLES = ["examples/minimal_example.py", "examples/footprint_example.py", "examples/multitower_example.py",
            "examples/timeseries_example.py", "examples/parallel_example.py", "examples/visualization_example.py",
            "examples/low_level/footprint_example.py", "examples/low_level/minimal_example.py", "examples/low_level/parallel_example.py",
            "examples/low_level/point_measurement_example.py", "runs/low_level/source_area_example.py"]
EXAMPLES_3D = ["examples/minimal_example_3d.py"]


def _shadow_report(path):
    if not os.path.exists(path):
        return None
    try:
        return json.load(open(path))
    except Exception:
        return None


def run_shadow(prop, part, timeout=2400):
    """One run_case-style result for property `prop` from the shadow oracles of vlib.shadow observing either the repository's test
    suite (part='tests') or its example scripts (part='examples').  Verdicts come from the oracles only; whether a test or a script
    itself passes is not judged here (counted)."""
    import shutil
    import tempfile

    env = dict(os.environ, VERIF_SHADOW_PROPS=prop)
    reports, ran, failed = [], [], []
    if part == "tests":
        out = os.path.abspath(f"shadow_{prop}_tests.json")
        tests = sorted(str(p) for p in (boot.REPO / "tests").glob("test_*.py") if p.name != "test_memory.py")
        r = subprocess.run([sys.executable, "-m", "pytest", "-q", "-p", "no:cacheprovider", "-p", "vlib.shadow", "--timeout=1800", "-o", "addopts=", *tests],
                           capture_output=True, text=True, timeout=timeout, env=dict(env, VERIF_MONITOR_OUT=out))
        summary = ([l for l in r.stdout.splitlines() if " passed" in l or " failed" in l or " error" in l] or [""])[-1]
        ran.append("pytest: " + summary)
        rep = _shadow_report(out)
        if rep is None:
            return {"harness_error": "pytest under shadow oracles produced no report: " + (r.stdout[-400:] + r.stderr[-400:])}
        reports.append(rep)
    else:
        scripts = EXAMPLES + (EXAMPLES_3D if prop == "C10" else [])
        for s in scripts:
            d = tempfile.mkdtemp(prefix="shadow-", dir=os.getcwd())
            for sub in ("plots", "output", "logs"):
                os.makedirs(os.path.join(d, sub), exist_ok=True)
            out = os.path.join(d, "mon.json")
            try:
                r = subprocess.run([sys.executable, "-m", "vlib.shadow", str(boot.REPO / s)], capture_output=True, text=True, timeout=900, cwd=d,
                                   env=dict(env, VERIF_MONITOR_OUT=out))
                rep = _shadow_report(out)
                if rep is not None:
                    reports.append(rep)
                    ran.append(s)
                if rep is None or "Traceback" in r.stderr.split("Exception ignored in atexit")[0]:
                    failed.append(s)
            except subprocess.TimeoutExpired:
                failed.append(s + " (timeout)")
            finally:
                shutil.rmtree(d, ignore_errors=True)
    n = sum(int(rep["evals"].get(prop, 0)) for rep in reports)
    viol = [v for rep in reports for v in rep["violations"] if v.get("property") == prop]
    harness = [h for rep in reports for h in rep.get("harness", [])]
    counters = {f"shadow_oracle_evaluations_under_repo_{part}": n, f"shadow_workloads_run:{part}": len(ran)}
    for rep in reports:
        for k, v in rep.get("counters", {}).items():
            if k.startswith(prop):
                counters["shadow:" + k] = counters.get("shadow:" + k, 0) + v
    if failed:
        counters[f"shadow_workloads_that_did_not_complete:{part}"] = len(failed)
    res = {"evals": n, "nontrivial": n > 0, "sig": [f"shadow|{part}|{prop}|{i}" for i in range(min(n, 200))],
           "buckets": {f"hook:shadow_oracles_under_repo_{part}": 1}, "counters": counters,
           "violations": [dict(v, source=f"shadow oracle beside a call made by the repository's own {part}") for v in viol],
           "sample": {"workloads": ran[:12], "not_completed": failed[:5], "oracle_evaluations": n}}
    if harness:
        res["harness_error"] = "shadow oracle raised internally: " + json.dumps(harness[:2])[:800]
    elif n == 0 and part == "tests":
        res["harness_error"] = f"shadow oracle for {prop} never evaluated under the repository's tests (alias not rebound?)"
    return res
