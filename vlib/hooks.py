"""Run (part of) the repository's own test suite with the harness's postconditions installed."""

import json
import os
import subprocess
import sys

from . import boot


def run_repo_tests(prop, files, timeout=1500):
    """Returns a run_case-style result for property `prop` from the tests in `files` (names under /repo/tests)."""
    out = os.path.abspath(f"monitor_{prop}.json")
    tests = [str(boot.REPO / "tests" / f) for f in files]
    env = dict(os.environ, VERIF_MONITOR_OUT=out)
    r = subprocess.run([sys.executable, "-m", "pytest", "-q", "-p", "no:cacheprovider", "-p", "vlib.pytest_monitors", "--timeout=900",
                        "-o", "addopts=", *tests], capture_output=True, text=True, timeout=timeout, env=env)
    if not os.path.exists(out):
        return {"harness_error": "pytest under monitors produced no monitor report: " + (r.stdout[-400:] + r.stderr[-400:])}
    rep = json.load(open(out))
    summary = [l for l in r.stdout.splitlines() if " passed" in l or " failed" in l or " error" in l][-1:] or [""]
    viol = [v for v in rep["violations"] if v.get("property") == prop]
    harness = [v for v in rep["violations"] if v.get("property") == "harness"]
    n = int(rep["evals"].get(prop, 0))
    res = {"evals": n, "nontrivial": n > 0, "sig": [f"repo_tests|{prop}|{i}" for i in range(min(n, 50))],
           "buckets": {"hook:repo_tests_under_monitors": 1},
           "counters": {"postcondition_evaluations_under_repo_tests": n},
           "violations": [dict(v, source="postcondition under the repository's own tests") for v in viol],
           "sample": {"repo_tests": files, "pytest_summary": summary[0], "postcondition_evaluations": rep["evals"]}}
    if harness:
        res["harness_error"] = "postcondition raised internally: " + json.dumps(harness[:2])
    if n == 0:
        res["harness_error"] = "postcondition never evaluated under the repository's tests (alias not rebound?)"
    return res
