"""Process bootstrap shared by the runner's workers and by replay.

Puts the working tree's ``src`` directory first on ``sys.path`` so that
``bldfm`` is imported from /repo's *current working tree* (or, for my own
mutant self-validation only, from ``BLDFM_VERIF_SRC``), and refuses to run
against anything else.
"""

import hashlib
import os
import sys
from pathlib import Path

VERIF = Path(__file__).resolve().parent.parent
REPO = Path(os.environ.get("BLDFM_VERIF_REPO", "/repo"))


def src_dir() -> str:
    return os.environ.get("BLDFM_VERIF_SRC") or str(REPO / "src")


def source_hash() -> str:
    h = hashlib.sha256()
    root = Path(src_dir()) / "bldfm"
    for p in sorted(root.rglob("*.py")):
        h.update(str(p.relative_to(root)).encode())
        h.update(p.read_bytes())
    return h.hexdigest()[:16]


def child_env(extra=None) -> dict:
    env = dict(os.environ)
    env["PYTHONHASHSEED"] = "0"
    env["BLDFM_VERIF"] = "1"
    env["PYTHONPATH"] = os.pathsep.join(
        [src_dir(), str(VERIF)]
        + ([env["PYTHONPATH"]] if env.get("PYTHONPATH") else [])
    )
    # two "kernel worlds": the on-disk numba cache seeded by a single-thread solve first (S) or by a multi-thread solve
    # first (P).  On a tree whose cache entries do not distinguish the two kernel variants the worlds behave differently
    # (whichever variant was cached first is served for both); shards alternate between them.
    world = env.get("VERIF_KERNEL_WORLD", "S")
    env["VERIF_KERNEL_WORLD"] = world
    env["NUMBA_CACHE_DIR"] = str(VERIF / ".cache" / "numba" / (source_hash() + "-" + world))
    env.setdefault("MPLBACKEND", "Agg")
    # sixteen worker processes share the machine: idle OpenMP threads of the multi-thread kernel must sleep, not spin
    env.setdefault("OMP_WAIT_POLICY", "PASSIVE")
    env.setdefault("KMP_BLOCKTIME", "0")
    env.setdefault("GOMP_SPINCOUNT", "0")
    if extra:
        env.update(extra)
    return env


def boot():
    """Import bldfm from the tree under test; abort (exit 2) if it is not."""
    s = src_dir()
    for p in (str(VERIF), s):
        if p in sys.path:
            sys.path.remove(p)
        sys.path.insert(0, p)
    deps = str(VERIF / ".deps")  # last: must not shadow the venv's own packages
    if deps not in sys.path:
        sys.path.append(deps)
    import logging

    logging.getLogger("bldfm").setLevel(logging.ERROR)
    import bldfm  # noqa

    _set_verbosity()

    where = os.path.realpath(bldfm.__file__)
    if not where.startswith(os.path.realpath(s) + os.sep):
        print(
            f"INCONCLUSIVE reason=bldfm imported from {where}, expected under {s}",
            flush=True,
        )
        sys.exit(2)
    logging.getLogger("bldfm").setLevel(logging.ERROR)
    _set_verbosity()
    return bldfm


def _set_verbosity():
    """Every fourth shard runs the package at DEBUG verbosity (the runner sets VERIF_BLDFM_LOGLEVEL): what a run computes must not
    depend on how much of it is logged.  The records are formatted and thrown away."""
    import logging

    if os.environ.get("VERIF_BLDFM_LOGLEVEL", "ERROR") == "DEBUG":
        lg = logging.getLogger("bldfm")
        lg.setLevel(logging.DEBUG)
        if not any(getattr(h, "_verif_sink", False) for h in lg.handlers):
            h = logging.StreamHandler(open(os.devnull, "w"))
            h._verif_sink = True
            h.setLevel(logging.DEBUG)
            lg.addHandler(h)
        lg.propagate = False
