"""pytest plugin: run the repository's own tests with single-call postconditions switched on.

"Invariant at a hook": icontract postconditions (recording, never raising) are attached from the
harness to the real functions at plugin import time - before conftest.py and the test modules bind
them - and every alias bound earlier (bldfm, bldfm.interface, ...) is rebound explicitly.  Each
monitor counts its evaluations; the result is written to $VERIF_MONITOR_OUT at session end.

    python -m pytest /repo/tests -p vlib.pytest_monitors ...
"""

import atexit
import json
import os
import sys

from . import boot

boot.boot()

import numpy as np  # noqa: E402
import icontract  # noqa: E402

import bldfm  # noqa: E402
import bldfm.solver as _solver  # noqa: E402
import bldfm.interface as _iface  # noqa: E402
import bldfm.pbl_model as _pbl  # noqa: E402
import bldfm.utils as _utils  # noqa: E402

EVALS = {"C03": 0, "C09": 0, "C10": 0, "C11": 0, "C20": 0}
VIOL = []
EPS = {"single": 2e-5, "double": 1e-9}


def _rec(prop, what, **d):
    if len(VIOL) < 200:
        VIOL.append(dict(property=prop, what=what, **{k: (v if isinstance(v, (int, float, str, bool, type(None))) else repr(v)[:200]) for k, v in d.items()}))


def solver_post(srf_flx, z, profiles, domain, levels, modes, meas_pt, srf_bg_conc, footprint, analytic, halo, precision, cache, result):
    try:
        grid, conc, flx = result
        conc, flx = np.asarray(conc), np.asarray(flx)
        ny, nx = np.shape(srf_flx)
        lv = [int(levels)] if np.ndim(levels) == 0 else [int(i) for i in levels]
        nl = len(lv)
        ctx = dict(shape=(ny, nx), levels=lv, modes=tuple(modes), halo=halo, footprint=bool(footprint), analytic=bool(analytic), precision=precision)
        # C11: the output keeps the input grid
        EVALS["C11"] += 1
        exp = tuple(s for s in (nl, ny, nx) if s != 1)
        if conc.shape != exp or flx.shape != exp:
            _rec("C11", "output_shape_differs_from_input_grid", got=conc.shape, expected=exp, **ctx)
            return True
        X, Y, Z = [np.asarray(g) for g in grid]
        ex = np.arange(nx) * (domain[0] / nx)
        ey = np.arange(ny) * (domain[1] / ny)
        Xf = np.broadcast_to(X.reshape((nl, ny, nx)), (nl, ny, nx))
        Yf = np.broadcast_to(Y.reshape((nl, ny, nx)), (nl, ny, nx))
        if not (np.allclose(Xf, ex[None, None, :], rtol=0, atol=1e-9 * max(domain)) and np.allclose(Yf, ey[None, :, None], rtol=0, atol=1e-9 * max(domain))):
            _rec("C11", "output_coordinates", **ctx)
        # C10: each slice is labelled with the height of the level requested for it
        EVALS["C10"] += 1
        Zf = Z.reshape((nl, ny, nx))
        for k, L in enumerate(lv):
            if not np.all(Zf[k] == np.asarray(z)[L]):
                _rec("C10", "returned_height_is_not_the_requested_level", slice=k, level=L, got=float(Zf[k].flat[0]), expected=float(np.asarray(z)[L]), **ctx)
        # C03: conservation / unit footprint sum on the full periodic domain (halo == 0 calls only)
        if halo is not None and halo == 0:
            EVALS["C03"] += 1
            f3 = flx.reshape((nl, ny, nx))
            tol = EPS.get(precision, 1e-5)
            if footprint:
                for k in range(nl):
                    s = float(f3[k].sum())
                    if abs(s - 1.0) > tol:
                        _rec("C03", "footprint_weights_do_not_sum_to_one", level=lv[k], sum=s, **ctx)
            else:
                q = np.asarray(srf_flx, dtype=float)
                sc = float(np.abs(q).mean()) or 1.0
                for k in range(nl):
                    e = abs(float(f3[k].mean()) - float(q.mean())) / sc
                    if e > tol:
                        _rec("C03", "mean_flux_not_conserved", level=lv[k], rel=e, **ctx)
    except Exception as e:  # a monitor must never break the observed call
        _rec("harness", "solver_postcondition_error", exc=repr(e))
    return True


def profiles_post(n, meas_height, wind, ustar, z0, mol, prsc, closure, domain_height, stretch, z0_min, z0_max, tke, result):
    try:
        EVALS["C09"] += 1
        z, (u, v, Kx, Ky, Kz) = result
        z, u, v, Kz = [np.asarray(a, dtype=float) for a in (z, u, v, Kz)]
        ctx = dict(n=n, meas_height=meas_height, wind=tuple(wind), closure=closure, ustar=ustar, z0=z0, mol=mol, domain_height=domain_height, stretch=stretch)
        if len(z) <= n or not np.all(np.isfinite(z)) or not np.all(np.diff(z) > 0):
            _rec("C09", "grid_not_strictly_increasing_and_finite", **ctx)
            return True
        if abs(z[n] - meas_height) > 1e-12 * meas_height:
            _rec("C09", "measurement_height_not_at_index_n", z_n=float(z[n]), **ctx)
        ws = float(np.hypot(*wind)) or 1.0
        if max(abs(u[n] - wind[0]), abs(v[n] - wind[1])) > 1e-10 * ws:
            _rec("C09", "wind_at_measurement_height", got=(float(u[n]), float(v[n])), **ctx)
        if not np.all(Kz > 0):
            _rec("C09", "Kz_not_strictly_positive", **ctx)
    except Exception as e:
        _rec("harness", "profiles_postcondition_error", exc=repr(e))
    return True


def source_area_post(f, g, result):
    try:
        f, g, r = np.asarray(f, dtype=float), np.asarray(g, dtype=float), np.asarray(result, dtype=float)
        if f.size == 0 or f.min() < 0 or not np.all(np.isfinite(f)):
            return True  # the property speaks of non-negative footprints
        EVALS["C20"] += 1
        total = float(f.sum())
        tol = 8 * f.size * 2.2e-16 * total
        if r.shape != g.shape or r.min() < -tol or r.max() > total + tol:
            _rec("C20", "rescaled_range", min=float(r.min()), max=float(r.max()), total=total)
            return True
        o = np.argsort(g.ravel(), kind="stable")
        gs, rs = g.ravel()[o], r.ravel()[o]
        if np.any((np.diff(rs) > tol) & (np.diff(gs) > 0)):
            _rec("C20", "rescaled_not_antimonotone_in_g", shape=f.shape)
    except Exception as e:
        _rec("harness", "source_area_postcondition_error", exc=repr(e))
    return True


class _Never(Exception):
    pass


def _install():
    orig = _solver.steady_state_transport_solver
    wrapped = icontract.ensure(solver_post, error=_Never)(orig)
    _solver.steady_state_transport_solver = wrapped
    for m in (bldfm, _iface):
        if getattr(m, "steady_state_transport_solver", None) is orig:
            setattr(m, "steady_state_transport_solver", wrapped)
    origp = _pbl.vertical_profiles
    wp = icontract.ensure(profiles_post, error=_Never)(origp)
    _pbl.vertical_profiles = wp
    if getattr(_iface, "vertical_profiles", None) is origp:
        _iface.vertical_profiles = wp
    origs = _utils.get_source_area
    ws = icontract.ensure(source_area_post, error=_Never)(origs)
    _utils.get_source_area = ws
    for name, mod in list(sys.modules.items()):
        if name.startswith("bldfm") and mod is not None and getattr(mod, "get_source_area", None) is origs:
            setattr(mod, "get_source_area", ws)


_install()


def _dump():
    out = os.environ.get("VERIF_MONITOR_OUT")
    if out:
        # forked pool workers of the tests inherit this hook: only the session's own process writes
        if os.getpid() != _PID:
            return
        with open(out, "w") as fh:
            json.dump({"evals": EVALS, "violations": VIOL}, fh)


_PID = os.getpid()
atexit.register(_dump)


def pytest_sessionfinish(session, exitstatus):
    _dump()
