"""Worker: runs the cases of one shard in a fresh process, one JSON line per case."""

import importlib
import json
import os
import sys
import traceback

from . import boot
from . import purity, solve
from .runner import jdefault


def _classify_exception(e, mod):
    """An exception that escapes a case.  Raised by the package itself (innermost frame in the tree under test, or a numba error on the
    way into its compiled kernel) for an input the generators hold to be inside the stated domain: a verdict - the same call is answered
    on a tree where the property holds.  Anything else (the harness's own code, the operating system, memory): a harness error."""
    tb = traceback.extract_tb(e.__traceback__)
    pkg = os.path.realpath(boot.src_dir()) + os.sep + "bldfm" + os.sep
    frames = [f for f in tb if os.path.realpath(f.filename).startswith(pkg)]
    inner = os.path.realpath(tb[-1].filename) if tb else ""
    numba_err = type(e).__module__.startswith("numba")
    if frames and not isinstance(e, (OSError, MemoryError)) and (inner.startswith(pkg) or numba_err):
        f = frames[-1]
        return {"evals": 1, "nontrivial": False,
                "violations": [{"what": "exception_inside_the_package_for_a_generated_input", "exc": f"{type(e).__name__}: {str(e)[:240]}",
                                "raised_at": f"{os.path.basename(f.filename)}:{f.lineno} in {f.name}", "property": getattr(mod, "ID", "?")}]}
    return {"harness_error": "".join(traceback.format_exception(type(e), e, e.__traceback__))}


def main():
    modname, infile, outfile = sys.argv[1:4]
    boot.boot()
    mod = importlib.import_module(modname)
    cases = json.load(open(infile))
    if hasattr(mod, "worker_init"):
        mod.worker_init()
    with open(outfile, "w") as out:
        for case in cases:
            try:
                if case.get("kind") == "shadow":
                    from . import hooks

                    res = hooks.run_shadow(mod.ID, case["part"])
                else:
                    solve.begin_case(case)
                    res = mod.run_case(case) or {}
            except Exception as exc_:
                res = _classify_exception(exc_, mod)
            purity.poison()   # the case has been judged: its result arrays are overwritten (see vlib.purity)
            pv, pc = purity.drain()
            if pv and "harness_error" not in res:
                res.setdefault("violations", []).extend(pv)
            if pc and "harness_error" not in res:
                cnt = res.setdefault("counters", {})
                for k, v in pc.items():
                    cnt[k] = cnt.get(k, 0) + v
            if "harness_error" not in res:
                cnt_ = res.setdefault("counters", {})
                lvl_ = os.environ.get("VERIF_BLDFM_LOGLEVEL", "ERROR")
                cnt_[f"cases_run_at_package_verbosity:{lvl_}"] = cnt_.get(f"cases_run_at_package_verbosity:{lvl_}", 0) + 1
            res["_i"] = case.get("_i", 0)
            res["_world"] = os.environ.get("VERIF_KERNEL_WORLD", "S")
            out.write(json.dumps(res, default=jdefault) + "\n")
            out.flush()


if __name__ == "__main__":
    main()
