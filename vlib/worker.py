"""Worker: runs the cases of one shard in a fresh process, one JSON line per case."""

import importlib
import json
import os
import sys
import traceback

from . import boot
from . import purity, solve
from .runner import jdefault


def main():
    modname, infile, outfile = sys.argv[1:4]
    boot.boot()
    mod = importlib.import_module(modname)
    cases = json.load(open(infile))
    if hasattr(mod, "worker_init"):
        mod.worker_init()
    with open(outfile, "w") as out:
        for case in cases:
            try:
                if case.get("kind") == "shadow":
                    from . import hooks

                    res = hooks.run_shadow(mod.ID, case["part"])
                else:
                    solve.begin_case(case)
                    res = mod.run_case(case) or {}
            except Exception:
                res = {"harness_error": traceback.format_exc()}
            purity.poison()   # the case has been judged: its result arrays are overwritten (see vlib.purity)
            pv, pc = purity.drain()
            if pv and "harness_error" not in res:
                res.setdefault("violations", []).extend(pv)
            if pc and "harness_error" not in res:
                cnt = res.setdefault("counters", {})
                for k, v in pc.items():
                    cnt[k] = cnt.get(k, 0) + v
            if "harness_error" not in res:
                cnt_ = res.setdefault("counters", {})
                lvl_ = os.environ.get("VERIF_BLDFM_LOGLEVEL", "ERROR")
                cnt_[f"cases_run_at_package_verbosity:{lvl_}"] = cnt_.get(f"cases_run_at_package_verbosity:{lvl_}", 0) + 1
            res["_i"] = case.get("_i", 0)
            res["_world"] = os.environ.get("VERIF_KERNEL_WORLD", "S")
            out.write(json.dumps(res, default=jdefault) + "\n")
            out.flush()


if __name__ == "__main__":
    main()
