"""Shadow oracles: reference models and relation monitors attached to the real functions for WHATEVER workload runs.

"Invariant at a hook" / "history + executable model" applied to workloads the harness did not generate: the repository's own test
suite and its example scripts.  Every call of a public function that a property speaks about is observed at the client boundary
(arguments snapshotted before the call, result after it) and judged by an oracle that runs *beside* the call:

    steady_state_transport_solver   C12  the same call again (arguments from the snapshot): bit-identical
                                    C15  with a cache attached: bit-identical to the uncached solve of the snapshot
                                    C04  footprint mode: other values in the source array -> bit-identical;
                                         dispersion mode: background + delta -> flux unchanged, concentration + delta
                                    C10  several levels: one of them requested alone -> that slice, that height
    compute_wind_fields             C08  speed preserved, (u, v) = -s (sin d, cos d) with the harness's own arithmetic
    run_bldfm_single                C13  the documented pipeline called by hand from a copy of the configuration: bit-identical
    run_bldfm_timeseries / _multitower / _parallel
                                    C14  every entry = the single run of that tower and step, configuration order, time order
    MetConfig.n_timesteps/get_step  C16  the ten-line reference semantics (checks.c16_met_timeseries.model)
    latlon_to_xy / xy_to_latlon     C17  mutual inverses; great-circle distance / bearing inside the stated range
    save_footprints_to_netcdf       C18  load the file just written: the comparison of checks.c18_netcdf_roundtrip
    estimateFootprint               C19  the published closed form (checks.c19_kormann_meixner), cell by cell
    get_source_area                 C20  brute-force definition on small inputs (checks.c20_source_area), range / order on all

Oracles call the ORIGINAL callables (kept before wrapping), never the wrapped ones; while an oracle runs, nested wrapped calls
pass straight through (depth guard), and forked children (pool workers of the drivers) never shadow.  A monitor never raises into
the observed call and never changes what it returns.  Counters per property and violations go to $VERIF_MONITOR_OUT.

    python -m pytest /repo/tests -p vlib.shadow ...            (pytest plugin)
    python -m vlib.shadow script.py [args]                      (example scripts, run as __main__)

$VERIF_SHADOW_PROPS = comma-separated property ids to switch on (default: all).
"""

import atexit
import copy
import functools
import inspect
import json
import math
import os
import sys

from . import boot

boot.boot()

import numpy as np  # noqa: E402

import bldfm  # noqa: E402
import bldfm.solver as _solver  # noqa: E402
import bldfm.interface as _iface  # noqa: E402
import bldfm.utils as _utils  # noqa: E402
import bldfm.config_parser as _cp  # noqa: E402
import bldfm.io as _io  # noqa: E402
import bldfm.ffm_kormann_meixner as _km  # noqa: E402

PROPS = set(filter(None, os.environ.get("VERIF_SHADOW_PROPS", "ALL").split(",")))
EVALS = {}
COUNT = {}
VIOL = []
HARNESS = []
_PID = os.getpid()
_depth = [0]
_ncall = [0]

ORIG = {}


def on(p):
    return ("ALL" in PROPS or p in PROPS) and os.getpid() == _PID and _depth[0] == 0


def ev(p, n=1):
    EVALS[p] = EVALS.get(p, 0) + n


def cnt(k, n=1):
    COUNT[k] = COUNT.get(k, 0) + n


def _j(v):
    if isinstance(v, (int, float, str, bool, type(None))):
        return v
    if isinstance(v, (np.integer,)):
        return int(v)
    if isinstance(v, (np.floating,)):
        return float(v)
    if isinstance(v, (list, tuple)) and len(v) <= 8:
        return [_j(x) for x in v]
    if isinstance(v, dict) and len(v) <= 12:
        return {str(k): _j(x) for k, x in v.items()}
    return repr(v)[:200]


def bad(prop, what, **d):
    if len(VIOL) < 300:
        VIOL.append(dict(property=prop, what=what, **{k: _j(v) for k, v in d.items()}))


def harness(where, e):
    if len(HARNESS) < 50:
        import traceback

        HARNESS.append({"where": where, "exc": repr(e)[:300], "tb": traceback.format_exc()[-600:]})


class oracle:
    """context: nested wrapped calls pass through, numpy warnings of oracle arithmetic are not the workload's business"""

    def __enter__(self):
        _depth[0] += 1
        self._err = np.seterr(all="ignore")

    def __exit__(self, *a):
        np.seterr(**self._err)
        _depth[0] -= 1
        return False


def same(a, b):
    a, b = np.asarray(a), np.asarray(b)
    return a.shape == b.shape and a.dtype == b.dtype and bool(np.array_equal(a, b, equal_nan=True))


def maxdiff(a, b):
    a, b = np.asarray(a, dtype=float), np.asarray(b, dtype=float)
    if a.shape != b.shape:
        return "shape %s vs %s" % (a.shape, b.shape)
    with np.errstate(all="ignore"):
        d = np.abs(a - b)
        return float(np.nanmax(d)) if d.size else 0.0


def snap(x):
    """deep copy of an argument as handed over (the call may modify the caller's object)"""
    try:
        return copy.deepcopy(x)
    except Exception:
        return x


def wrap(mod, name, make):
    orig = getattr(mod, name)
    ORIG[(mod.__name__, name)] = orig
    w = make(orig)
    functools.update_wrapper(w, orig)
    setattr(mod, name, w)
    for mname, m in list(sys.modules.items()):
        if m is not None and mname.startswith("bldfm") and m is not mod and getattr(m, name, None) is orig:
            setattr(m, name, w)
    return orig


# ------------------------------------------------------------------------------------------------ solver: C12, C15, C04, C10


def _solver_wrapper(orig):
    sig = inspect.signature(orig)

    def w(*a, **k):
        if not (on("C12") or on("C15") or on("C04") or on("C10")):
            return orig(*a, **k)
        try:
            ba = sig.bind(*a, **k)
            ba.apply_defaults()
            A = dict(ba.arguments)
            cache = A.get("cache")
            S = {n: (v if n == "cache" else snap(v)) for n, v in A.items()}
        except Exception as e:
            harness("solver_bind", e)
            return orig(*a, **k)
        res = orig(*a, **k)
        _ncall[0] += 1
        try:
            with oracle():
                _solver_oracles(orig, S, cache, res)
        except Exception as e:
            harness("solver_oracles", e)
        return res

    return w


def _solver_oracles(orig, S, cache, res):
    grid, conc, flx = res
    fp = bool(S.get("footprint"))
    prec = S.get("precision", "single")
    ctx = dict(shape=np.shape(S["srf_flx"]), levels=S["levels"], modes=S["modes"], halo=S["halo"], footprint=fp, analytic=bool(S.get("analytic")),
               precision=prec, meas_pt=S["meas_pt"], cache=cache is not None)
    U = dict(S, cache=None)

    def again(**over):
        return orig(**{n: snap(v) for n, v in dict(U, **over).items()})

    # C12 / C15: the same request, solved again without a cache
    if (cache is None and ("ALL" in PROPS or "C12" in PROPS)) or (cache is not None and ("ALL" in PROPS or "C15" in PROPS)):
        p = "C12" if cache is None else "C15"
        g2, c2, f2 = again()
        ev(p)
        for nm, x, y in (("conc", conc, c2), ("flx", flx, f2), ("X", grid[0], g2[0]), ("Y", grid[1], g2[1]), ("Z", grid[2], g2[2])):
            if not same(x, y):
                bad(p, "repeated_solve_not_bit_identical" if p == "C12" else "cached_result_differs_from_uncached_solve", field=nm,
                    maxdiff=maxdiff(x, y), scale=float(np.nanmax(np.abs(np.asarray(y, dtype=float)))) if np.size(y) else 0.0, **ctx)
                break
    if "ALL" in PROPS or "C04" in PROPS:
        rng = np.random.default_rng(_ncall[0])
        q = np.asarray(S["srf_flx"])
        if fp:
            q2 = rng.normal(size=q.shape) * 10.0 ** rng.uniform(-3, 3)
            g2, c2, f2 = again(srf_flx=q2)
            ev("C04")
            cnt("C04_footprint_source_values_replaced")
            if not (same(conc, c2) and same(flx, f2)):
                bad("C04", "footprint_depends_on_source_values", maxdiff_flx=maxdiff(flx, f2), maxdiff_conc=maxdiff(conc, c2), **ctx)
        else:
            bg = float(S.get("srf_bg_conc") or 0.0)
            cmax = float(np.nanmax(np.abs(np.asarray(conc, dtype=float)))) if np.size(conc) else 0.0
            delta = float((0.5 + rng.random()) * max(cmax, 1e-3))
            g2, c2, f2 = again(srf_bg_conc=bg + delta)
            ev("C04")
            cnt("C04_background_shifted")
            tolr = 1e-9 if prec == "double" else 5e-5
            fmax = float(np.nanmax(np.abs(np.asarray(flx, dtype=float)))) if np.size(flx) else 0.0
            qmax = float(np.max(np.abs(q))) if q.size else 0.0
            df = maxdiff(flx, f2)
            if isinstance(df, str) or not df <= tolr * max(fmax, qmax, 1e-300):
                bad("C04", "flux_depends_on_background", maxdiff=df, scale=max(fmax, qmax), delta=delta, **ctx)
            dc = maxdiff(np.asarray(c2, dtype=float) - delta, conc)
            if isinstance(dc, str) or not dc <= tolr * (cmax + abs(bg) + delta):
                bad("C04", "background_is_not_a_uniform_offset", maxdiff=dc, scale=cmax + abs(bg) + delta, delta=delta, **ctx)
    if ("ALL" in PROPS or "C10" in PROPS) and np.ndim(S["levels"]) > 0 and len(S["levels"]) > 1:
        lv = [int(i) for i in S["levels"]]
        kk = _ncall[0] % len(lv)
        g1, c1, f1 = again(levels=lv[kk])
        ev("C10")
        cnt("C10_single_level_shadow")
        c3, f3, Z3 = np.asarray(conc), np.asarray(flx), np.asarray(grid[2])
        for nm, x, y in (("conc", c3[kk], c1), ("flx", f3[kk], f1), ("Z", Z3[kk], g1[2])):
            x, y = np.asarray(x), np.asarray(y)
            sc = float(np.nanmax(np.abs(y.astype(float)))) if y.size else 0.0
            d = maxdiff(x, y)
            if same(x, y):
                cnt("C10_bitwise_slices")
            elif isinstance(d, str) or not d <= 1e-12 * sc:
                bad("C10", "slice_differs_from_single_level_request", field=nm, slice=kk, level=lv[kk], maxdiff=d, scale=sc, **ctx)


# ------------------------------------------------------------------------------------------------ wind: C08


def _wind_wrapper(orig):
    def w(u_rot, wind_dir):
        if not on("C08"):
            return orig(u_rot, wind_dir)
        s_, d_ = snap(u_rot), snap(wind_dir)
        res = orig(u_rot, wind_dir)
        try:
            with oracle():
                if np.ndim(s_) == 0 and np.ndim(d_) == 0 and s_ is not None and d_ is not None:
                    s, d = float(s_), float(d_)
                    u, v = float(res[0]), float(res[1])
                    ev("C08")
                    eu, ev_ = -s * math.sin(math.radians(d)), -s * math.cos(math.radians(d))
                    t = 1e-12 * max(abs(s), 1e-300)
                    if not (abs(math.hypot(u, v) - abs(s)) <= t and abs(u - eu) <= t and abs(v - ev_) <= t):
                        bad("C08", "wind_decomposition", speed=s, direction=d, got=(u, v), expected=(eu, ev_))
        except Exception as e:
            harness("wind_oracle", e)
        return res

    return w


# ------------------------------------------------------------------------------------------------ single run: C13


def _step_of(met, i):
    """reference semantics of a met step (C16's model, on the dataclass)"""
    def g(v):
        return v[i] if isinstance(v, list) else v
    st = {"ustar": g(met.ustar), "mol": g(met.mol), "wind_speed": g(met.wind_speed), "wind_dir": g(met.wind_dir)}
    if met.z0 is not None:
        st["z0"] = met.z0
    st["timestamp"] = met.timestamps[i] if met.timestamps is not None else i
    return st


def pipeline_by_hand(cfg, tower, i, surface_flux):
    """the documented low-level pipeline for (configuration, tower, step), with the original low-level callables"""
    wind, prof_fn, src_fn, solve = (ORIG[("bldfm.utils", "compute_wind_fields")], _PROFILES, _IDEAL, ORIG[("bldfm.solver", "steady_state_transport_solver")])
    dom, sol = cfg.domain, cfg.solver
    st = _step_of(cfg.met, i)
    u, v = wind(st["wind_speed"], st["wind_dir"])
    if st.get("z0") is not None:
        z, prof = prof_fn(n=dom.nz, meas_height=tower.z_m, wind=(u, v), z0=st["z0"], mol=st["mol"], closure=sol.closure)
    else:
        z, prof = prof_fn(n=dom.nz, meas_height=tower.z_m, wind=(u, v), ustar=st["ustar"], mol=st["mol"], closure=sol.closure)
    srf = surface_flux if surface_flux is not None else src_fn((dom.nx, dom.ny), (dom.xmax, dom.ymax), src_loc=sol.src_loc, shape=sol.surface_flux_shape)
    if dom.output_levels:
        levels = dom.output_levels
    elif dom.full_output:
        levels = list(range(dom.nz + 1))
    else:
        levels = dom.nz
    out = solve(srf, z, prof, (dom.xmax, dom.ymax), levels, modes=dom.modes, meas_pt=(tower.x, tower.y), footprint=sol.footprint,
                analytic=sol.analytic, halo=dom.halo, precision=sol.precision)
    return out, st


def _compare_single(prop, res, cfg, tower, i, surface_flux, ctx, bitwise=True):
    exp, st = pipeline_by_hand(cfg, tower, i, surface_flux)
    ev(prop)
    ok = True
    for nm, a_, b_ in (("X", res["grid"][0], exp[0][0]), ("Y", res["grid"][1], exp[0][1]), ("Z", res["grid"][2], exp[0][2]),
                       ("conc", res["conc"], exp[1]), ("flx", res["flx"], exp[2])):
        if same(a_, b_):
            cnt(prop + "_bitwise_fields")
            continue
        d = maxdiff(a_, b_)
        sc = float(np.nanmax(np.abs(np.asarray(b_, dtype=float)))) if np.size(b_) else 0.0
        if bitwise or isinstance(d, str) or not d <= 1e-12 * sc:
            ok = False
            bad(prop, "single_run_differs_from_pipeline" if prop == "C13" else "driver_entry_differs_from_single_run", field=nm, maxdiff=d, scale=sc, **ctx)
            break
    exp_xy = (tower.x, tower.y)
    if res.get("timestamp") != st["timestamp"] or res.get("tower_name") != tower.name or tuple(res.get("tower_xy", ())) != exp_xy or res.get("params") != st:
        ok = False
        bad(prop, "result_metadata", got={k_: res.get(k_) for k_ in ("timestamp", "tower_name", "tower_xy", "params")},
            expected=dict(timestamp=st["timestamp"], tower_name=tower.name, tower_xy=exp_xy, params=st), **ctx)
    return ok


def _single_wrapper(orig):
    sig = inspect.signature(orig)

    def w(*a, **k):
        if not on("C13"):
            return orig(*a, **k)
        try:
            ba = sig.bind(*a, **k)
            ba.apply_defaults()
            A = ba.arguments
            cfg, tower, i, sf = snap(A["config"]), snap(A["tower"]), A["met_index"], snap(A["surface_flux"])
        except Exception as e:
            harness("single_bind", e)
            return orig(*a, **k)
        res = orig(*a, **k)
        try:
            with oracle():
                _compare_single("C13", res, cfg, tower, i, sf, dict(tower=tower.name, step=i, cache=A.get("cache") is not None))
                if A["config"] != cfg:
                    bad("C13", "run_mutates_the_configuration", tower=tower.name, step=i)
        except Exception as e:
            harness("single_oracle", e)
        return res

    return w


# ------------------------------------------------------------------------------------------------ drivers: C14


def _check_series(prop_ctx, lst, cfg, tower, sf):
    n = _ref_nsteps(cfg.met)
    if not isinstance(lst, list) or len(lst) != n:
        bad("C14", "number_of_entries_differs_from_number_of_steps", got=len(lst) if hasattr(lst, "__len__") else None, expected=n, **prop_ctx)
        return
    for i, r in enumerate(lst):
        if not isinstance(r, dict) or any(k_ not in r for k_ in ("conc", "flx", "grid")):
            bad("C14", "entry_missing_or_not_a_result", tower=tower.name, step=i, got=repr(r)[:80], **prop_ctx)
            continue
        _compare_single("C14", r, cfg, tower, i, sf, dict(prop_ctx, tower=tower.name, step=i), bitwise=False)


def _ref_nsteps(met):
    lens = [len(getattr(met, f)) for f in ("ustar", "mol", "wind_speed", "wind_dir") if isinstance(getattr(met, f), list)]
    return lens[0] if lens else 1


def _timeseries_wrapper(orig):
    sig = inspect.signature(orig)

    def w(*a, **k):
        if not on("C14"):
            return orig(*a, **k)
        try:
            ba = sig.bind(*a, **k)
            ba.apply_defaults()
            A = ba.arguments
            cfg, tower, sf = snap(A["config"]), snap(A["tower"]), snap(A["surface_flux"])
        except Exception as e:
            harness("timeseries_bind", e)
            return orig(*a, **k)
        res = orig(*a, **k)
        try:
            with oracle():
                _check_series(dict(driver="timeseries", cache=bool(cfg.parallel.use_cache)), res, cfg, tower, sf)
        except Exception as e:
            harness("timeseries_oracle", e)
        return res

    return w


def _multi_wrapper(orig, driver):
    sig = inspect.signature(orig)

    def w(*a, **k):
        if not on("C14"):
            return orig(*a, **k)
        try:
            ba = sig.bind(*a, **k)
            ba.apply_defaults()
            A = dict(ba.arguments)
            cfg = snap(A["config"])
            sf = snap(A.get("surface_flux")) if driver == "multitower" else None
        except Exception as e:
            harness(driver + "_bind", e)
            return orig(*a, **k)
        _depth[0] += 1  # the nested timeseries / single runs of this driver are judged here, once, at the driver's boundary
        try:
            res = orig(*a, **k)
        finally:
            _depth[0] -= 1
        try:
            with oracle():
                ctx = dict(driver=driver, cache=bool(cfg.parallel.use_cache), strategy=A.get("parallel_over"), workers=A.get("max_workers"))
                names = [t.name for t in cfg.towers]
                cnt("C14_driver_calls:" + driver)
                if len(set(names)) == len(names) and list(res.keys()) != names:
                    bad("C14", "tower_keys_not_in_configuration_order", got=list(res.keys()), expected=names, **ctx)
                for t in cfg.towers:
                    if t.name in res:
                        _check_series(ctx, res[t.name], cfg, t, sf)
        except Exception as e:
            harness(driver + "_oracle", e)
        return res

    return w


# ------------------------------------------------------------------------------------------------ met config: C16


def _met_model(met):
    from checks.c16_met_timeseries import model

    return model({f: getattr(met, f) for f in ("ustar", "mol", "wind_speed", "wind_dir", "z0", "timestamps")})


def _install_met():
    cls = _cp.MetConfig
    prop = cls.__dict__["n_timesteps"]
    orig_get = cls.get_step
    orig_validate = cls.validate

    def n_timesteps(self):
        n = prop.fget(self)
        if on("C16"):
            try:
                with oracle():
                    m = _met_model(self)
                    if m[0] == "ok":
                        ev("C16")
                        if n != m[1]:
                            bad("C16", "number_of_steps", got=n, expected=m[1], met=repr(self)[:300])
            except Exception as e:
                harness("n_timesteps_oracle", e)
        return n

    def get_step(self, i):
        r = orig_get(self, i)
        if on("C16"):
            try:
                with oracle():
                    m = _met_model(self)
                    if m[0] == "ok" and isinstance(i, (int, np.integer)) and 0 <= i < m[1]:
                        ev("C16")
                        if r != m[2][i]:
                            bad("C16", "step_values", step=int(i), got=r, expected=m[2][i])
            except Exception as e:
                harness("get_step_oracle", e)
        return r

    def validate(self):
        try:
            out = orig_validate(self)
        except ValueError:
            if on("C16"):
                try:
                    with oracle():
                        ev("C16")
                        if _met_model(self)[0] == "ok":
                            bad("C16", "consistent_forcing_rejected", met=repr(self)[:300])
                except Exception as e:
                    harness("validate_oracle", e)
            raise
        if on("C16"):
            try:
                with oracle():
                    ev("C16")
                    m = _met_model(self)
                    if m[0] == "reject":
                        bad("C16", "inconsistent_forcing_accepted", why=m[1], met=repr(self)[:300])
            except Exception as e:
                harness("validate_oracle", e)
        return out

    cls.n_timesteps = property(n_timesteps)
    cls.get_step = get_step
    cls.validate = validate


# ------------------------------------------------------------------------------------------------ geolocation: C17


def _latlon_wrapper(orig):
    def w(lat, lon, ref_lat, ref_lon):
        res = orig(lat, lon, ref_lat, ref_lon)
        if on("C17"):
            try:
                with oracle():
                    from checks.c17_geolocation import haversine, bearing, angdiff

                    if all(np.ndim(t) == 0 for t in (lat, lon, ref_lat, ref_lon)):
                        x, y = float(res[0]), float(res[1])
                        la, lo, rla, rlo = float(lat), float(lon), float(ref_lat), float(ref_lon)
                        ev("C17")
                        back = ORIG[("bldfm.config_parser", "xy_to_latlon")](x, y, rla, rlo) if ("bldfm.config_parser", "xy_to_latlon") in ORIG else None
                        if back is not None and abs(rla) <= 85 and abs(la) <= 89:
                            if not (abs(float(back[0]) - la) <= 1e-9 and abs(float(back[1]) - lo) <= 1e-9):
                                bad("C17", "roundtrip_latlon_xy_latlon", point=(la, lo), reference=(rla, rlo), back=(float(back[0]), float(back[1])))
                        r = math.hypot(x, y)
                        if la == rla and lo == rlo and (x, y) != (0.0, 0.0):
                            bad("C17", "origin_not_mapped_to_zero", got=(x, y))
                        if 10.0 <= r <= 5000.0 and abs(rla) <= 60 and abs(la) <= 60:
                            cnt("C17_great_circle_comparisons")
                            dist = haversine(rla, rlo, la, lo)
                            brg = bearing(rla, rlo, la, lo)
                            loc = math.degrees(math.atan2(x, y)) % 360.0
                            if not (abs(r - dist) <= 1e-3 * dist and abs(angdiff(loc, brg)) <= 0.1):
                                bad("C17", "distance_or_bearing_off_great_circle", point=(la, lo), reference=(rla, rlo), local=(x, y), dist=dist, bearing=brg)
            except Exception as e:
                harness("latlon_oracle", e)
        return res

    return w


# ------------------------------------------------------------------------------------------------ NetCDF: C18


def _save_wrapper(orig):
    def w(results, config, filepath, *a, **k):
        if not on("C18"):
            return orig(results, config, filepath, *a, **k)
        try:
            R = {nm: [dict(r, grid=tuple(np.array(g, copy=True) for g in r["grid"]), conc=np.array(r["conc"], copy=True), flx=np.array(r["flx"], copy=True),
                           params=dict(r["params"])) for r in lst] for nm, lst in results.items()}
            C = snap(config)
        except Exception as e:
            harness("save_snapshot", e)
            return orig(results, config, filepath, *a, **k)
        out = orig(results, config, filepath, *a, **k)
        try:
            with oracle():
                from checks.c18_netcdf_roundtrip import compare_loaded

                path = str(filepath)
                cands = [p_ for p_ in (path, path + ".nc") if os.path.isfile(p_)]
                if not cands:
                    bad("C18", "no_file_written", path=path)
                else:
                    ds = _io.load_footprints_from_netcdf(cands[0])
                    try:
                        v0 = len(VIOL)
                        counters = {}
                        compare_loaded(ds, R, C, lambda what, **d: bad("C18", what, **d), counters)
                        ev("C18", counters.get("slices_compared", 0) + counters.get("labels_compared", 0))
                        cnt("C18_files_read_back")
                        del v0
                    finally:
                        ds.close()
        except Exception as e:
            harness("save_oracle", e)
        return out

    return w


# ------------------------------------------------------------------------------------------------ Kormann-Meixner: C19


def _km_wrapper(orig):
    sig = inspect.signature(orig)

    def w(*a, **k):
        if not on("C19"):
            return orig(*a, **k)
        try:
            ba = sig.bind(*a, **k)
            ba.apply_defaults()
            A = {n: snap(v) for n, v in ba.arguments.items()}
        except Exception as e:
            harness("km_bind", e)
            return orig(*a, **k)
        res = orig(*a, **k)
        try:
            with oracle():
                from checks.c19_kormann_meixner import km_params, km_oracle, cell_centres, along_cross

                zm, z0, ws, ustar, L, sv = (float(A[n]) for n in ("zm", "z0", "ws", "ustar", "mo_len", "sigma_v"))
                res_ = float(A["grid_res"])
                dom = tuple(float(t) for t in A["grid_domain"])
                mxy = tuple(float(t) for t in A["mxy"])
                wd = None if A["wd"] is None else float(A["wd"])
                if zm > z0 > 0 and ustar > 0 and ws > 0 and sv > 0 and L != 0:
                    P = km_params(zm, z0, ws, ustar, L)
                    if P["U"] > 0 and P["kappa"] > 0 and P["r"] > 0:
                        gx, gy, ffm = res
                        ex, ey = cell_centres(dom, res_)
                        ev("C19")
                        if np.shape(gx) != ex.shape or not (np.array_equal(gx, ex) and np.array_equal(gy, ey)):
                            bad("C19", "grid_coordinates", shape=np.shape(gx), expected=ex.shape)
                        else:
                            al, cr = along_cross(ex, ey, mxy, wd)
                            ref = km_oracle(P, sv, al, cr, res_)
                            scale = float(ref.max()) or 1.0
                            half = max(abs(t) for t in dom)
                            # (absolute allowance for intermediate products quantised in the subnormal range, as in checks/c19)
                            d = np.clip(np.abs(np.asarray(ffm, dtype=float) - ref) - 64 * 4.94e-324 * max(1.0, res_ * res_), 0.0, None)
                            d[np.abs(al) < 1e-9 * half] = 0
                            rel = float(np.nanmax(d) / scale)
                            if not rel <= 1e-10 or not np.all(np.isfinite(ffm)):
                                bad("C19", "differs_from_published_closed_form", rel=rel, params=dict(zm=zm, z0=z0, ws=ws, ustar=ustar, L=L, sigma_v=sv), res=res_, wd=wd,
                                    types=[type(A[n]).__name__ for n in ("zm", "z0", "ws", "ustar", "mo_len", "sigma_v")])
                            if np.nanmin(ffm) < 0:
                                bad("C19", "negative_cell", min=float(np.nanmin(ffm)))
        except Exception as e:
            harness("km_oracle", e)
        return res

    return w


# ------------------------------------------------------------------------------------------------ source area: C20


def _area_wrapper(orig):
    def w(f, g, *a, **k):
        if not on("C20"):
            return orig(f, g, *a, **k)
        f0, g0 = snap(f), snap(g)
        res = orig(f, g, *a, **k)
        try:
            with oracle():
                ff, gg, r = np.asarray(f0, dtype=float), np.asarray(g0, dtype=float), np.asarray(res, dtype=float)
                if ff.size and ff.shape == gg.shape and ff.min() >= 0 and np.all(np.isfinite(ff)) and np.all(np.isfinite(gg)):
                    ev("C20")
                    total = float(ff.sum())
                    tol = 8 * ff.size * 2.2e-16 * total
                    if r.shape != gg.shape:
                        bad("C20", "rescaled_shape", got=r.shape, expected=gg.shape)
                    elif ff.size <= 4096:
                        # the definition, cell by cell (exact up to the rounding of a sum): sum of f over strictly larger g <= r <= that + ties
                        fl, gl, rl = ff.ravel(), gg.ravel(), r.ravel()
                        o = np.argsort(-gl, kind="stable")
                        gs, fs = gl[o], fl[o]
                        cs = np.concatenate(([0.0], np.cumsum(fs)))
                        first = np.searchsorted(-gs, -gl, side="left")   # number of cells with strictly larger g
                        last = np.searchsorted(-gs, -gl, side="right")   # ... with larger or equal g
                        lo, hi = cs[first], cs[last] - fl
                        cnt("C20_cells_against_definition", int(fl.size))
                        if np.any(rl < lo - tol) or np.any(rl > hi + tol):
                            i = int(np.argmax(np.maximum(lo - rl, rl - hi)))
                            bad("C20", "rescaled_value_outside_definition", cell=i, got=float(rl[i]), lower=float(lo[i]), upper=float(hi[i]), total=total,
                                g_dtype=str(np.asarray(g0).dtype), f_dtype=str(np.asarray(f0).dtype))
                    elif r.min() < -tol or r.max() > total + tol:
                        bad("C20", "rescaled_range", min=float(r.min()), max=float(r.max()), total=total)
        except Exception as e:
            harness("area_oracle", e)
        return res

    return w


# ------------------------------------------------------------------------------------------------ installation

_PROFILES = None
_IDEAL = None


def install():
    global _PROFILES, _IDEAL
    import bldfm.pbl_model as _pbl

    _PROFILES = _pbl.vertical_profiles
    _IDEAL = _utils.ideal_source
    wrap(_solver, "steady_state_transport_solver", _solver_wrapper)
    wrap(_utils, "compute_wind_fields", _wind_wrapper)
    try:
        from bldfm.plotting._geo import xy_to_latlon as _inv

        ORIG[("bldfm.config_parser", "xy_to_latlon")] = _inv
    except Exception:
        pass
    wrap(_cp, "latlon_to_xy", _latlon_wrapper)
    _install_met()
    wrap(_iface, "run_bldfm_single", _single_wrapper)
    wrap(_iface, "run_bldfm_timeseries", _timeseries_wrapper)
    wrap(_iface, "run_bldfm_multitower", lambda o: _multi_wrapper(o, "multitower"))
    wrap(_iface, "run_bldfm_parallel", lambda o: _multi_wrapper(o, "parallel"))
    wrap(_io, "save_footprints_to_netcdf", _save_wrapper)
    wrap(_km, "estimateFootprint", _km_wrapper)
    wrap(_utils, "get_source_area", _area_wrapper)


install()


def _dump():
    out = os.environ.get("VERIF_MONITOR_OUT")
    if out and os.getpid() == _PID:
        with open(out, "w") as fh:
            json.dump({"evals": EVALS, "counters": COUNT, "violations": VIOL, "harness": HARNESS}, fh)


atexit.register(_dump)


def pytest_sessionfinish(session, exitstatus):
    _dump()


if __name__ == "__main__":
    import runpy

    script = sys.argv[1]
    sys.argv = sys.argv[1:]
    try:
        runpy.run_path(script, run_name="__main__")
    finally:
        _dump()
