"""Thin helpers around the public solver used by the relation monitors."""

import numpy as np

TOL = {"double": 1e-9, "single": 5e-5}
TOL_EXACT = {"double": 1e-11, "single": 5e-5}


def tol(prec, G=0.0, base=None, cr=1.0):
    """Identity tolerance relative to the field scale.

    Linear shooting cancels two solutions that grow like e^G; the absolute rounding error of a mode is
    ~eps*e^G relative to the low-wavenumber scale.  Calibrated on 3200 set-ups: worst residual / (eps*e^G) = 590,
    so 5000*eps*e^G keeps an 8x margin; below G~7 the flat 1e-9 applies.
    """
    import math

    b = TOL[prec] if base is None else base
    # cr: ratio of the largest to the smallest layer resistance dz/Kz; the flux rounding error grows with it (residual/(eps e^G):
    # <= 10 for cr < 1e3, 120-220 for 1e4-1e6, 5400 observed once at cr = 7e4) - factor cr/1e3 beyond 1e3
    return max(b, 1.1e-12 * math.exp(min(G, 40.0)) * max(1.0, cr / 1e3))


# --------------------------------------------------------------------------- the monitored call path
#
# Every solver call of the relation checks goes through `call`:
#   * purity guard (vlib.purity): arguments snapshotted, in-place modification confirmed by a repeat with the same objects;
#   * value-preserving re-spelling of the arguments, chosen once per case: containers (tuple / list / float64 or int64
#     ndarray for domain, modes, meas_pt, levels; tuple / list for profiles), memory layout of the surface flux (C order,
#     Fortran order, strided view), numpy scalars for halo / background.  The same spelled object is reused for equal
#     values within a case (a user loop keeps its arrays).  No dtype is changed that would make numba compile a new kernel;
#   * decoy pre-roll: in 30 % of the cases the first call is preceded, in the same process, by two to three solves that
#     share the cheap identifying features of that call (cell / pad / mode counts, padded shape, geometry) and differ in what
#     a too coarsely keyed memo or a recycled work array would miss (halo, cell size, footprint flag, interior/halo split of
#     the same padded shape with a non-zero source, fewer modes, other profile values, a wider flux map with the same cell
#     size).  Their results are discarded; state that leaks from them breaks the relation the case then evaluates.

_CASE = {"rng": None, "spell": None, "first": True, "memo": {}, "decoys": 0}
ARGN = ("srf_flx", "z", "profiles", "domain", "levels")


def begin_case(case):
    """Called by vlib.worker before every case."""
    import zlib

    seed = [int(case.get("seed", 0)) & 0xFFFFFFFF, zlib.crc32(repr(sorted((k, repr(v)) for k, v in case.items() if not k.startswith("_"))).encode())]
    rng = np.random.default_rng(seed)
    _CASE.update(rng=rng, first=True, memo={}, decoys=0)
    _CASE["spell"] = dict(
        domain=str(rng.choice(["tuple", "list", "ndarray"])),
        modes=str(rng.choice(["tuple", "list", "ndarray"])),
        meas_pt=str(rng.choice(["tuple", "list", "ndarray", "ndarray", "single-typed", "single-typed array"])),
        levels=str(rng.choice(["asis", "asis", "ndarray"])),
        profiles=str(rng.choice(["tuple", "list"])),
        srf_flx=str(rng.choice(["C", "C", "F", "strided", "C", "F", "strided", "bigendian", "readonly"])),
        # heights and profiles as they come out of binary files / memory maps: big-endian float64, read-only (same values)
        column=str(rng.choice(["asis", "asis", "asis", "asis", "bigendian", "readonly", "bigendian_z_only", "bigendian_one_profile"])),
        scalars=str(rng.choice(["python", "numpy"])),
        decoys=bool(rng.random() < 0.3),
        threads=int(rng.choice([1, 1, 1, 1, 1, 1, 1, 1, 2, 3])),
        flags=str(rng.choice(["bool", "bool", "numpy", "int"])),
    )
    # the process-wide thread setting of the solver: 20 % of the cases run the multi-thread kernel (2 or 3 threads); checks that
    # manage the setting themselves (C12, C14) overwrite it
    try:
        from bldfm import config as _rc

        _rc.NUM_THREADS = _CASE["spell"]["threads"]
    except Exception:
        pass


def _memo(key, make):
    m = _CASE["memo"]
    if key not in m:
        m[key] = make()
    return m[key]


def _spell(kw):
    sp = _CASE["spell"]
    if sp is None:
        return kw
    kw = dict(kw)
    from vlib import purity

    for name in ("domain", "modes", "meas_pt"):
        if name in kw and kw[name] is not None and sp[name] != "tuple":
            vals = tuple(kw[name])
            isint = name == "modes"
            if sp[name].startswith("single-typed"):
                # coordinates from a station table kept in single precision: only where the numbers are exactly float32 numbers, so the
                # request is the same request (NumPy 2 keeps float32 through scalar arithmetic with Python floats)
                if all(float(np.float32(v)) == float(v) for v in vals):
                    f32 = tuple(np.float32(v) for v in vals)
                    kw[name] = f32 if sp[name] == "single-typed" else _memo((name, "f32", vals), lambda: np.array(f32, dtype=np.float32))
                    purity._count("measurement_point_given_as_float32")
                continue
            if sp[name] == "list":
                kw[name] = list(vals)
            else:
                kw[name] = _memo((name, vals), lambda: np.array(vals, dtype=np.int64 if isint else np.float64))
    if "levels" in kw and sp["levels"] == "ndarray" and np.ndim(kw["levels"]) == 1:
        vals = tuple(int(v) for v in kw["levels"])
        kw["levels"] = _memo(("levels", vals), lambda: np.array(vals, dtype=np.int64))
    if sp["profiles"] == "list" and isinstance(kw.get("profiles"), tuple):
        kw["profiles"] = list(kw["profiles"])
    q = kw.get("srf_flx")
    if isinstance(q, np.ndarray) and q.ndim == 2 and q.dtype == np.float64:
        if sp["srf_flx"] == "F":
            kw["srf_flx"] = np.asfortranarray(q)
        elif sp["srf_flx"] == "strided":
            big = np.full((q.shape[0] * 2, q.shape[1] * 2 + 1), np.nan)
            big[::2, 1::2] = q
            kw["srf_flx"] = big[::2, 1::2]
        elif sp["srf_flx"] == "bigendian":
            kw["srf_flx"] = q.astype(">f8")
        elif sp["srf_flx"] == "readonly":
            ro = np.array(q, copy=True)
            ro.flags.writeable = False
            kw["srf_flx"] = ro
    col = sp.get("column", "asis")
    if col != "asis" and isinstance(kw.get("z"), np.ndarray) and isinstance(kw.get("profiles"), (tuple, list)) and all(isinstance(a, np.ndarray) and a.dtype == np.float64 for a in kw["profiles"]) and kw["z"].dtype == np.float64:
        def _be(a):
            return _memo(("be", id(a)), lambda: a.astype(">f8"))

        def _ro(a):
            def mk():
                b = np.array(a, copy=True)
                b.flags.writeable = False
                return b
            return _memo(("ro", id(a)), mk)

        _keep = _CASE["memo"].setdefault("_keepalive", [])
        _keep.extend([kw["z"], *kw["profiles"]])   # ids stay unique while the case runs
        typ = type(kw["profiles"])
        if col == "bigendian":
            kw["z"], kw["profiles"] = _be(kw["z"]), typ(_be(a) for a in kw["profiles"])
        elif col == "readonly":
            kw["z"], kw["profiles"] = _ro(kw["z"]), typ(_ro(a) for a in kw["profiles"])
        elif col == "bigendian_z_only":
            kw["z"] = _be(kw["z"])
        elif col == "bigendian_one_profile":
            kw["profiles"] = typ(_be(a) if i == 4 else a for i, a in enumerate(kw["profiles"]))
        purity._count(f"column_given_as:{col}")
    if sp.get("flags", "bool") != "bool":
        # switches the way a caller may hold them: the result of a numpy comparison (numpy.bool_) or 0 / 1
        for name in ("footprint", "analytic"):
            if isinstance(kw.get(name), bool):
                kw[name] = np.bool_(kw[name]) if sp["flags"] == "numpy" else int(kw[name])
        purity._count(f"switches_given_as:{sp['flags']}")
    if sp["scalars"] == "numpy":
        for name in ("halo", "srf_bg_conc"):
            if isinstance(kw.get(name), float):
                kw[name] = np.float64(kw[name])
    purity._count(f"solver_calls_with_threads:{sp['threads']}")
    purity._count(f"spelling:{sp['domain'][0]}{sp['modes'][0]}{sp['meas_pt'][0]}{sp['levels'][0]}{sp['profiles'][0]}{sp['srf_flx'][0]}{sp['scalars'][0]}")
    return kw


def _decoys(kw):
    """Variants of the upcoming call that share its cheap identifying features (see the header comment)."""
    rng = _CASE["rng"]
    q = np.asarray(kw["srf_flx"], dtype=float)
    ny, nx = q.shape
    xmax, ymax = (float(v) for v in kw["domain"])
    dx, dy = xmax / nx, ymax / ny
    halo = kw.get("halo")
    heff = max(xmax, ymax) if halo is None else float(halo)
    px, py = int(heff / dx), int(heff / dy)
    fp = bool(kw.get("footprint", False))
    out = []

    def dense(sh):
        return rng.normal(size=sh) + 3.0

    base = dict(kw)
    if not fp:
        base["srf_flx"] = dense((ny, nx))
    # other interior / halo split of the same padded shape (earlier call with the wider interior and the other way round)
    for d in (1, -1):
        px2, py2 = px - d, py - d
        nx2, ny2 = nx + 2 * d, ny + 2 * d
        if px2 >= 0 and py2 >= 0 and nx2 >= 2 and ny2 >= 2:
            h2 = max(px2 * dx, py2 * dy) * (1 + 1e-9) + 1e-9 * min(dx, dy)
            if int(h2 / dx) == px2 and int(h2 / dy) == py2:
                out.append(dict(base, srf_flx=dense((ny2, nx2)), domain=(dx * nx2, dy * ny2), halo=h2,
                                meas_pt=tuple(kw.get("meas_pt", (0.0, 0.0)))))
    # the same request with another halo / without one
    out.append(dict(base, halo=0.0 if heff > 0 else float(2 * max(dx, dy))))
    if halo is not None:
        out.append(dict(base, halo=None) if (nx + 2 * int(max(xmax, ymax) / dx)) * (ny + 2 * int(max(xmax, ymax) / dy)) <= 200 * 200 else dict(base, halo=heff + max(dx, dy)))
    # the other mode (footprint <-> dispersion) on identical geometry
    out.append(dict(base, footprint=not fp, srf_flx=dense((ny, nx))))
    # same counts, other cell size (lengths scaled, halo scaled with them)
    s = float(rng.choice([0.5, 1.7, 3.0]))
    out.append(dict(base, domain=(xmax * s, ymax * s), halo=None if halo is None else heff * s,
                    meas_pt=tuple(float(v) * s for v in kw.get("meas_pt", (0.0, 0.0)))))
    # fewer modes on the same padded grid
    m = tuple(int(v) for v in kw.get("modes", (512, 512)))
    nxe, nye = nx + 2 * px, ny + 2 * py
    mx, my = min(m[0], nxe), min(m[1], nye)
    if mx - 2 >= 2 and my - 2 >= 2 and not (nxe % 2 or nye % 2):
        out.append(dict(base, modes=(mx - 2, my - 2)))
    # other physics on the same grid
    pr = [np.asarray(a, dtype=float) for a in kw["profiles"]]
    out.append(dict(base, profiles=(pr[1] * 1.3 + 0.1, -pr[0] * 0.8, pr[2] * 1.4, pr[3] * 0.7, pr[4] * 1.2)))
    # same cell size, halo and modes, wider flux map
    out.append(dict(base, srf_flx=dense((ny, nx + 4)), domain=(dx * (nx + 4), ymax)))
    k = int(rng.integers(2, 4))
    pick = [out[i] for i in rng.permutation(len(out))[:k]]
    if rng.random() < 0.5:
        # a call that is rejected half-way (mode counts of the wrong parity for the padded grid - a ValueError after the argument checks), in
        # the OTHER precision: whatever it switched on before it raised must not outlive it
        other = "single" if kw.get("precision", "single") == "double" else "double"
        if nxe % 2 or nye % 2:
            # even counts on an odd padded grid: rejected after the padding has been worked out
            pick.append(dict(base, precision=other, modes=(max(2, (min(mx, nxe) // 2) * 2), max(2, (min(my, nye) // 2) * 2))))
        else:
            # a level that is not on the column, closed-form branch: rejected where the heights are looked up
            pick.append(dict(base, precision=other, analytic=True, levels=[len(np.atleast_1d(kw["z"])) + 3]))
    return pick


def call(**kw):
    from bldfm.solver import steady_state_transport_solver
    from vlib import purity

    if _CASE["spell"] is not None and _CASE["first"]:
        _CASE["first"] = False
        if _CASE["spell"]["decoys"] and isinstance(kw.get("srf_flx"), np.ndarray) and not kw.get("cache"):
            for d in _decoys(kw):
                try:
                    a = [d.pop(k) for k in ARGN]
                    with np.errstate(all="ignore"):
                        steady_state_transport_solver(*a, **d)
                    _CASE["decoys"] += 1
                    purity._count("decoy_solves")
                except Exception:
                    purity._count("decoy_solves_rejected")  # a decoy outside the accepted argument space (parity, size): not a verdict
    kw = _spell(kw)
    a = [kw.pop(k) for k in ARGN]
    import warnings as _w

    with _w.catch_warnings(record=True) as _rec:
        _w.simplefilter("always")
        res = purity.guarded(steady_state_transport_solver, "steady_state_transport_solver")(*a, **kw)
    for w_ in _rec:  # diagnostics only (counted in the evidence): a warning is not a verdict
        purity._count(f"warning_during_solve:{w_.category.__name__}:{str(w_.message)[:40]}")
    # finiteness monitor: a comparison "error > tolerance" is blind to NaN, so every field returned for finite arguments is looked at
    # here (footprint mode does not read the source values; a dispersion run of a non-finite source is not judged)
    try:
        src_ok = bool(kw.get("footprint", False)) or bool(np.all(np.isfinite(np.asarray(a[0], dtype=float))))
        args_ok = src_ok and all(np.all(np.isfinite(np.asarray(x, dtype=float))) for x in (a[1], *a[2]))
        if args_ok:
            grid, conc, flx = res
            bad = [nm for nm, arr in (("conc", conc), ("flx", flx), ("X", grid[0]), ("Y", grid[1]), ("Z", grid[2])) if not np.all(np.isfinite(np.asarray(arr)))]
            purity._count("finiteness_checks")
            if bad:
                purity.VIOLATIONS.append({"what": "non_finite_output_for_finite_arguments", "fields": bad,
                                          "call": {k: (v if isinstance(v, (int, float, str, bool, type(None))) else repr(v)[:60]) for k, v in kw.items()},
                                          "shape": tuple(np.shape(a[0])), "nz": len(a[1])})
    except Exception:
        pass
    return res


def S():
    """The solver with its positional signature, routed through the monitored call path."""

    def solver(srf_flx, z, profiles, domain, levels, **kw):
        return call(srf_flx=srf_flx, z=z, profiles=profiles, domain=domain, levels=levels, **kw)

    return solver


def solve(setup, q0, levels, **kw):
    """Call the real solver for set-up `setup` (vlib.gen.draw_setup)."""
    args = dict(modes=setup["modes"], halo=setup["halo"], precision=kw.pop("precision", "double"))
    args.update(kw)
    grid, conc, flx = call(srf_flx=q0, z=setup["z"], profiles=setup["profiles"], domain=setup["domain"], levels=levels, **args)
    return grid, np.asarray(conc), np.asarray(flx)


def as3d(a, nlev):
    a = np.asarray(a)
    return a.reshape((nlev,) + a.shape[-2:]) if a.ndim == 2 else a


def relerr(a, b, scale=None):
    a, b = np.asarray(a, dtype=float), np.asarray(b, dtype=float)
    if a.shape != b.shape or not (np.all(np.isfinite(a)) and np.all(np.isfinite(b))):
        return float("inf")
    if scale is None:
        scale = max(float(np.max(np.abs(a))), float(np.max(np.abs(b))), 1e-300)
    return float(np.max(np.abs(a - b)) / scale)


def pick_levels(rng, nz, kind=None):
    """nz = number of nodes; returns a level selection (ascending list, scalar or ndarray)."""
    kind = kind or str(rng.choice(["top", "scalar", "few", "with_top", "full", "shuffled"]))
    if kind == "shuffled":  # any order: slices must be the solution at the level they are labelled with
        k = int(rng.integers(2, min(5, nz) + 1))
        return [int(i) for i in rng.permutation(nz)[:k]], kind
    if kind == "top":
        return nz - 1, kind
    if kind == "scalar":
        return int(rng.integers(0, nz)), kind
    if kind == "few":
        k = int(rng.integers(1, min(4, nz) + 1))
        return sorted(int(i) for i in rng.choice(nz, size=k, replace=False)), kind
    if kind == "with_top":
        k = int(rng.integers(0, min(3, nz - 1) + 1))
        return sorted(set([int(i) for i in rng.choice(nz - 1, size=k, replace=False)] + [nz - 1])), kind
    return list(range(nz)), kind


def nlev(levels):
    return 1 if np.ndim(levels) == 0 else len(levels)


def spectrum_mask(ny, nx, my, mx):
    """True for wavenumbers strictly inside the cut-off (|ix| < mx/2, |iy| < my/2) and off the grid's Nyquist."""
    ix = np.fft.fftfreq(nx, 1.0 / nx)
    iy = np.fft.fftfreq(ny, 1.0 / ny)
    mx = min(mx, nx)
    my = min(my, ny)
    okx = (np.abs(ix) < mx / 2.0) & (np.abs(ix) < nx / 2.0)
    oky = (np.abs(iy) < my / 2.0) & (np.abs(iy) < ny / 2.0)
    return oky[:, None] & okx[None, :]


def amp_scales(setup, q0, footprint=False, **_ignored):
    """(concentration scale, flux scale) of a problem, independent of truncation, re-centring, cropping and output level.

    The rounding error of linear shooting is ~eps*e^G relative to the *surface* amplitude of a mode, not to the (possibly much
    smaller, truncated-away or cropped-away) field that comes out, so identity residuals are normalised by at least:
    flux: the source amplitude max|q0| (footprint mode: 1, the weight of the surface delta);
    concentration: that amplitude times the column resistance sum dz/Kz (the response to a uniform source of the same amplitude)."""
    z = np.asarray(setup["z"], dtype=float)
    Kz = np.asarray(setup["profiles"][4], dtype=float)
    R = float(np.sum(np.diff(z) * 0.5 * (1.0 / Kz[:-1] + 1.0 / Kz[1:])))
    A = 1.0 if footprint else float(np.max(np.abs(q0)))
    return A * R, A


# kept for callers that want the actual surface fields
def surface_scales(setup, q0, **kw):
    return amp_scales(setup, q0, footprint=bool(kw.get("footprint", False)))


def surface_fields(setup, q0, **kw):
    kw = dict(kw)
    kw.pop("srf_bg_conc", None)
    _, c, f = solve(setup, q0, 0, **kw)
    return np.asarray(c), np.asarray(f)
