"""Thin helpers around the public solver used by the relation monitors."""

import numpy as np

TOL = {"double": 1e-9, "single": 5e-5}
TOL_EXACT = {"double": 1e-11, "single": 5e-5}


def tol(prec, G=0.0, base=None):
    """Identity tolerance relative to the field scale.

    Linear shooting cancels two solutions that grow like e^G; the absolute rounding error of a mode is
    ~eps*e^G relative to the low-wavenumber scale.  Calibrated on 3200 set-ups: worst residual / (eps*e^G) = 590,
    so 5000*eps*e^G keeps an 8x margin; below G~7 the flat 1e-9 applies.
    """
    import math

    b = TOL[prec] if base is None else base
    return max(b, 1.1e-12 * math.exp(min(G, 40.0)))


def S():
    from bldfm.solver import steady_state_transport_solver

    return steady_state_transport_solver


def solve(setup, q0, levels, **kw):
    """Call the real solver for set-up `setup` (vlib.gen.draw_setup)."""
    args = dict(modes=setup["modes"], halo=setup["halo"], precision=kw.pop("precision", "double"))
    args.update(kw)
    grid, conc, flx = S()(q0, setup["z"], setup["profiles"], setup["domain"], levels, **args)
    return grid, np.asarray(conc), np.asarray(flx)


def as3d(a, nlev):
    a = np.asarray(a)
    return a.reshape((nlev,) + a.shape[-2:]) if a.ndim == 2 else a


def relerr(a, b, scale=None):
    a, b = np.asarray(a, dtype=float), np.asarray(b, dtype=float)
    if a.shape != b.shape:
        return float("inf")
    if scale is None:
        scale = max(float(np.max(np.abs(a))), float(np.max(np.abs(b))), 1e-300)
    return float(np.max(np.abs(a - b)) / scale)


def pick_levels(rng, nz, kind=None):
    """nz = number of nodes; returns a level selection (ascending list, scalar or ndarray)."""
    kind = kind or str(rng.choice(["top", "scalar", "few", "with_top", "full"]))
    if kind == "top":
        return nz - 1, kind
    if kind == "scalar":
        return int(rng.integers(0, nz)), kind
    if kind == "few":
        k = int(rng.integers(1, min(4, nz) + 1))
        return sorted(int(i) for i in rng.choice(nz, size=k, replace=False)), kind
    if kind == "with_top":
        k = int(rng.integers(0, min(3, nz - 1) + 1))
        return sorted(set([int(i) for i in rng.choice(nz - 1, size=k, replace=False)] + [nz - 1])), kind
    return list(range(nz)), kind


def nlev(levels):
    return 1 if np.ndim(levels) == 0 else len(levels)


def spectrum_mask(ny, nx, my, mx):
    """True for wavenumbers strictly inside the cut-off (|ix| < mx/2, |iy| < my/2) and off the grid's Nyquist."""
    ix = np.fft.fftfreq(nx, 1.0 / nx)
    iy = np.fft.fftfreq(ny, 1.0 / ny)
    mx = min(mx, nx)
    my = min(my, ny)
    okx = (np.abs(ix) < mx / 2.0) & (np.abs(ix) < nx / 2.0)
    oky = (np.abs(iy) < my / 2.0) & (np.abs(iy) < ny / 2.0)
    return oky[:, None] & okx[None, :]


def surface_scales(setup, q0, **kw):
    """(max|conc|, max|flx|) at the surface level of the same problem.

    The rounding error of linear shooting is ~eps*e^G relative to the *surface* amplitude of a mode, not to the (possibly
    much smaller) field at an upper level, so identity residuals are normalised by at least these."""
    kw = dict(kw)
    kw.pop("srf_bg_conc", None)
    _, c, f = solve(setup, q0, 0, **kw)
    return float(np.max(np.abs(c))), float(np.max(np.abs(f)))


def surface_fields(setup, q0, **kw):
    kw = dict(kw)
    kw.pop("srf_bg_conc", None)
    _, c, f = solve(setup, q0, 0, **kw)
    return np.asarray(c), np.asarray(f)
