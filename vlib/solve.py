"""Thin helpers around the public solver used by the relation monitors."""

import numpy as np

TOL = {"double": 1e-9, "single": 5e-5}
TOL_EXACT = {"double": 1e-11, "single": 5e-5}


def tol(prec, G=0.0, base=None, cr=1.0):
    """Identity tolerance relative to the field scale.

    Linear shooting cancels two solutions that grow like e^G; the absolute rounding error of a mode is
    ~eps*e^G relative to the low-wavenumber scale.  Calibrated on 3200 set-ups: worst residual / (eps*e^G) = 590,
    so 5000*eps*e^G keeps an 8x margin; below G~7 the flat 1e-9 applies.
    """
    import math

    b = TOL[prec] if base is None else base
    # cr: ratio of the largest to the smallest layer resistance dz/Kz; the flux rounding error grows with it (residual/(eps e^G):
    # <= 10 for cr < 1e3, 120-220 for 1e4-1e6, 5400 observed once at cr = 7e4) - factor cr/1e3 beyond 1e3
    return max(b, 1.1e-12 * math.exp(min(G, 40.0)) * max(1.0, cr / 1e3))


def S():
    from bldfm.solver import steady_state_transport_solver

    return steady_state_transport_solver


def solve(setup, q0, levels, **kw):
    """Call the real solver for set-up `setup` (vlib.gen.draw_setup)."""
    args = dict(modes=setup["modes"], halo=setup["halo"], precision=kw.pop("precision", "double"))
    args.update(kw)
    grid, conc, flx = S()(q0, setup["z"], setup["profiles"], setup["domain"], levels, **args)
    return grid, np.asarray(conc), np.asarray(flx)


def as3d(a, nlev):
    a = np.asarray(a)
    return a.reshape((nlev,) + a.shape[-2:]) if a.ndim == 2 else a


def relerr(a, b, scale=None):
    a, b = np.asarray(a, dtype=float), np.asarray(b, dtype=float)
    if a.shape != b.shape:
        return float("inf")
    if scale is None:
        scale = max(float(np.max(np.abs(a))), float(np.max(np.abs(b))), 1e-300)
    return float(np.max(np.abs(a - b)) / scale)


def pick_levels(rng, nz, kind=None):
    """nz = number of nodes; returns a level selection (ascending list, scalar or ndarray)."""
    kind = kind or str(rng.choice(["top", "scalar", "few", "with_top", "full", "shuffled"]))
    if kind == "shuffled":  # any order: slices must be the solution at the level they are labelled with
        k = int(rng.integers(2, min(5, nz) + 1))
        return [int(i) for i in rng.permutation(nz)[:k]], kind
    if kind == "top":
        return nz - 1, kind
    if kind == "scalar":
        return int(rng.integers(0, nz)), kind
    if kind == "few":
        k = int(rng.integers(1, min(4, nz) + 1))
        return sorted(int(i) for i in rng.choice(nz, size=k, replace=False)), kind
    if kind == "with_top":
        k = int(rng.integers(0, min(3, nz - 1) + 1))
        return sorted(set([int(i) for i in rng.choice(nz - 1, size=k, replace=False)] + [nz - 1])), kind
    return list(range(nz)), kind


def nlev(levels):
    return 1 if np.ndim(levels) == 0 else len(levels)


def spectrum_mask(ny, nx, my, mx):
    """True for wavenumbers strictly inside the cut-off (|ix| < mx/2, |iy| < my/2) and off the grid's Nyquist."""
    ix = np.fft.fftfreq(nx, 1.0 / nx)
    iy = np.fft.fftfreq(ny, 1.0 / ny)
    mx = min(mx, nx)
    my = min(my, ny)
    okx = (np.abs(ix) < mx / 2.0) & (np.abs(ix) < nx / 2.0)
    oky = (np.abs(iy) < my / 2.0) & (np.abs(iy) < ny / 2.0)
    return oky[:, None] & okx[None, :]


def amp_scales(setup, q0, footprint=False, **_ignored):
    """(concentration scale, flux scale) of a problem, independent of truncation, re-centring, cropping and output level.

    The rounding error of linear shooting is ~eps*e^G relative to the *surface* amplitude of a mode, not to the (possibly much
    smaller, truncated-away or cropped-away) field that comes out, so identity residuals are normalised by at least:
    flux: the source amplitude max|q0| (footprint mode: 1, the weight of the surface delta);
    concentration: that amplitude times the column resistance sum dz/Kz (the response to a uniform source of the same amplitude)."""
    z = np.asarray(setup["z"], dtype=float)
    Kz = np.asarray(setup["profiles"][4], dtype=float)
    R = float(np.sum(np.diff(z) * 0.5 * (1.0 / Kz[:-1] + 1.0 / Kz[1:])))
    A = 1.0 if footprint else float(np.max(np.abs(q0)))
    return A * R, A


# kept for callers that want the actual surface fields
def surface_scales(setup, q0, **kw):
    return amp_scales(setup, q0, footprint=bool(kw.get("footprint", False)))


def surface_fields(setup, q0, **kw):
    kw = dict(kw)
    kw.pop("srf_bg_conc", None)
    _, c, f = solve(setup, q0, 0, **kw)
    return np.asarray(c), np.asarray(f)
