"""Check runner: tiering, seeding, sharding, watchdogs, three-valued verdicts,
evidence writer, replay files and the known-findings classifier.

A check module (``checks/cNN_*.py``) provides

    ID                 'C05'
    LEVEL              'exploration' | 'fault_enumeration'
    RULE               str: how cases are generated and what makes one non-trivial
    ASSUMPTIONS        list[str]
    MIN_NONTRIVIAL     {'quick': int, 'thorough': int}
    TIMEOUT            {'quick': seconds, 'thorough': seconds}   (per shard watchdog)
    cases(tier, seed)  -> list[dict]       JSON-able case descriptions (cheap)
    run_case(case)     -> dict             executed in a worker process, see below
    finalize(results, tier) -> dict        optional: {'coverage': {...},
                                            'inconclusive': [reasons],
                                            'violations': [ {...} ]}
    classify(case, violation) -> str|None  optional: mechanism key of a known finding

``run_case`` returns
    {'evals': int,            oracle evaluations made
     'nontrivial': bool,      did this case exercise the relation non-trivially
     'sig': str,              signature for distinct counting
     'buckets': {name: 1},    coverage buckets hit
     'resid': {name: float},  worst residual per relation (max-merged)
     'counters': {name: int}, monitor counters (sum-merged)
     'skipped': str|None,     precondition that excluded the case
     'violations': [ {'what': str, ...} ],
     'sample': {...}}         optional compact description for the evidence
"""

import argparse
import collections
import hashlib
import importlib
import json
import os
import shutil
import subprocess
import sys
import tempfile
import time
from pathlib import Path

from . import boot

VERIF = boot.VERIF
PY = "/venv/bin/python"
NSHARDS = 16


SHADOW_PROPS = ("C04", "C08", "C10", "C12", "C13", "C14", "C15", "C16", "C17", "C18", "C19", "C20")


def find_check(pid: str):
    pid = pid.upper()
    for p in sorted((VERIF / "checks").glob("c*.py")):
        if p.stem.upper().startswith(pid + "_") or p.stem.upper() == pid:
            return "checks." + p.stem
    raise SystemExit(f"no check module for {pid}")


def load_known():
    open_, fixed = [], []
    f = VERIF / "KNOWN_FINDINGS.txt"
    if f.exists():
        for line in f.read_text().splitlines():
            line = line.strip()
            if not line or line.startswith("#"):
                continue
            kind, _, rest = line.partition(":")
            fields = dict(
                tok.split("=", 1) for tok in rest.split() if "=" in tok
            )
            rec = {"property": fields.get("property"), "key": fields.get("key"), "text": rest.strip()}
            (open_ if kind.strip() == "open" else fixed).append(rec)
    return open_, fixed


def ensure_deps():
    if not (VERIF / ".deps" / "icontract").exists():
        subprocess.run(["bash", str(VERIF / "setup.sh")], check=False,
                       stdout=subprocess.DEVNULL, stderr=subprocess.DEVNULL)


def warm_numba(env, scratch):
    """Compile both variants of the JIT kernel once before fan-out, in both kernel worlds (see boot.child_env)."""
    for world, order in (("S", (1, 2)), ("P", (2, 1))):
        e = dict(env)
        e["VERIF_KERNEL_WORLD"] = world
        e["NUMBA_CACHE_DIR"] = env["NUMBA_CACHE_DIR"][:-1] + world
        marker = Path(e["NUMBA_CACHE_DIR"]) / ".warm"
        if marker.exists():
            continue
        Path(e["NUMBA_CACHE_DIR"]).mkdir(parents=True, exist_ok=True)
        code = (
            "from vlib import boot; boot.boot()\n"
            "import numpy as np\n"
            "from bldfm import config\n"
            "from bldfm.solver import steady_state_transport_solver as S\n"
            "z=np.linspace(0.1,4.,5); one=np.ones(5)\n"
            f"for nt in {order!r}:\n"
            "    config.NUM_THREADS=nt\n"
            "    S(np.ones((4,4)),z,(one,one,one,one,one),(40.,40.),4,modes=(4,4),halo=0.,precision='double')\n"
        )
        r = subprocess.run([PY, "-c", code], env=e, cwd=scratch, capture_output=True, text=True, timeout=900)
        if r.returncode == 0:
            marker.write_text("ok")


def jdefault(o):
    import numpy as np

    if isinstance(o, (np.integer,)):
        return int(o)
    if isinstance(o, (np.floating,)):
        return float(o)
    if isinstance(o, (np.bool_,)):
        return bool(o)
    if isinstance(o, np.ndarray):
        return o.tolist()
    if isinstance(o, (set, frozenset, tuple)):
        return list(o)
    return repr(o)


def main(argv=None):
    ap = argparse.ArgumentParser()
    ap.add_argument("pid")
    ap.add_argument("--tier", default=None, choices=["quick", "thorough"])
    ap.add_argument("--replay", default=None)
    ap.add_argument("--shards", type=int, default=NSHARDS)
    ap.add_argument("--keep", action="store_true", help="keep scratch dir (debug)")
    a = ap.parse_args(argv)
    tier = a.tier or os.environ.get("VERIF_TIER") or "quick"
    if tier not in ("quick", "thorough"):
        tier = "quick"
    seed = int(os.environ.get("VERIF_SEED", "0") or 0)
    pid = a.pid.upper()
    modname = find_check(pid)

    ensure_deps()
    env = boot.child_env()
    scratch = tempfile.mkdtemp(prefix=f"bldfm-verif-{pid}-")
    t0 = time.time()
    try:
        warm_numba(env, scratch)
        if a.replay:
            return replay(modname, a.replay, env, scratch)
        return run(pid, modname, tier, seed, env, scratch, a.shards, t0)
    finally:
        if not a.keep:
            shutil.rmtree(scratch, ignore_errors=True)


def replay(modname, path, env, scratch):
    rec = json.loads(Path(path).read_text())
    world = (rec.get("violation") or {}).get("kernel_world") or "S"
    env = dict(env, VERIF_KERNEL_WORLD=world, NUMBA_CACHE_DIR=env["NUMBA_CACHE_DIR"][:-1] + world)
    shard = Path(scratch) / "replay.json"
    shard.write_text(json.dumps([rec["case"]]))
    out = Path(scratch) / "replay.out"
    r = subprocess.run([PY, "-m", "vlib.worker", modname, str(shard), str(out)],
                       env=env, cwd=scratch, timeout=3600)
    res = [json.loads(l) for l in out.read_text().splitlines()] if out.exists() else []
    print(json.dumps(res, indent=1, default=jdefault))
    bad = any(x.get("violations") for x in res)
    if bad:
        print(f"VIOLATION property={rec.get('property')} replay={path}")
    return 1 if bad else (0 if res and r.returncode == 0 else 2)


def run(pid, modname, tier, seed, env, scratch, nshards, t0):
    sys.path.insert(0, str(VERIF))
    mod = importlib.import_module(modname)
    cases = mod.cases(tier, seed)
    if tier == "thorough" and pid in SHADOW_PROPS and not os.environ.get("VERIF_NO_SHADOW"):
        # the shadow oracles of vlib.shadow beside every call that the repository's own tests / example scripts make
        cases += [{"seed": seed, "kind": "shadow", "part": part, "_cost": 60} for part in ("tests", "examples")]
    for i, c in enumerate(cases):
        c["_i"] = i
    nshards = max(1, min(nshards, len(cases), getattr(mod, "MAX_SHARDS", nshards)))
    # cases may carry a relative cost; greedy balance
    order = sorted(range(len(cases)), key=lambda i: -cases[i].get("_cost", 1))
    loads = [0.0] * nshards
    shards = [[] for _ in range(nshards)]
    for i in order:
        k = loads.index(min(loads))
        shards[k].append(cases[i])
        loads[k] += cases[i].get("_cost", 1)
    procs = []
    timeout = getattr(mod, "TIMEOUT", {}).get(tier, 1500)
    for k, sh in enumerate(shards):
        d = Path(scratch) / f"shard{k}"
        d.mkdir()
        (d / "in.json").write_text(json.dumps(sh, default=jdefault))
        e = dict(env)
        e["VERIF_SHARD"] = str(k)
        e["VERIF_KERNEL_WORLD"] = "P" if k % 2 else "S"
        e["NUMBA_CACHE_DIR"] = env["NUMBA_CACHE_DIR"][:-1] + e["VERIF_KERNEL_WORLD"]
        e["VERIF_BLDFM_LOGLEVEL"] = "DEBUG" if k % 4 == 3 else "ERROR"   # verbosity must not change results
        e["VERIF_TIER"] = tier
        e["VERIF_SEED"] = str(seed)
        p = subprocess.Popen([PY, "-m", "vlib.worker", modname, str(d / "in.json"), str(d / "out.jsonl")],
                             env=e, cwd=d, stdout=open(d / "stdout", "w"), stderr=subprocess.STDOUT)
        procs.append((k, p, d))
    inconclusive = []
    deadline = time.time() + timeout
    for k, p, d in procs:
        try:
            p.wait(timeout=max(1, deadline - time.time()))
        except subprocess.TimeoutExpired:
            p.kill()
            inconclusive.append(f"watchdog: shard {k} exceeded {timeout}s")
    results = []
    for k, p, d in procs:
        got = []
        if (d / "out.jsonl").exists():
            for line in (d / "out.jsonl").read_text().splitlines():
                try:
                    got.append(json.loads(line))
                except Exception:
                    pass
        results.extend(got)
        if len(got) != len(shards[k]) and not any("watchdog" in s and f"shard {k} " in s for s in inconclusive):
            tail = (d / "stdout").read_text()[-1500:]
            inconclusive.append(f"shard {k} returned {len(got)}/{len(shards[k])} results (rc={p.returncode}): {tail}")
    results.sort(key=lambda r: r.get("_i", 0))
    bycase = {c["_i"]: c for c in cases}

    # ---- merge
    evals = 0
    sigs = set()
    buckets = collections.Counter()
    counters = collections.Counter()
    skipped = collections.Counter()
    resid = {}
    viols = []
    harness_errors = []
    samples = []
    sample_kinds = set()
    for r in results:
        if r.get("harness_error"):
            harness_errors.append((r.get("_i"), r["harness_error"]))
            continue
        evals += int(r.get("evals", 1))
        if r.get("skipped"):
            skipped[r["skipped"]] += 1
        if r.get("nontrivial"):
            s = r.get("sig")
            for x in (s if isinstance(s, list) else [s]):
                sigs.add(str(x))
        for b in r.get("buckets", {}):
            buckets[b] += r["buckets"][b]
        for c_, v in r.get("counters", {}).items():
            counters[c_] += v
        for k_, v in r.get("resid", {}).items():
            if v is not None and (k_ not in resid or v > resid[k_]):
                resid[k_] = v
        for v in r.get("violations", []):
            v.setdefault("kernel_world", r.get("_world"))
            viols.append((bycase.get(r.get("_i")), v))
        if r.get("sample") is not None:
            kind = str(bycase.get(r.get("_i"), {}).get("kind", ""))
            if len(samples) < 3 or (kind not in sample_kinds and len(samples) < 8):
                sample_kinds.add(kind)
                samples.append({"case": {k: v for k, v in bycase.get(r.get("_i"), {}).items() if not k.startswith("_")},
                                "observed": r["sample"]})
    fin = {}
    if hasattr(mod, "finalize"):
        fin = mod.finalize(results, tier) or {}
        for v in fin.get("violations", []):
            viols.append((v.get("case"), v))
        inconclusive.extend(fin.get("inconclusive", []))
    if harness_errors:
        inconclusive.append(f"{len(harness_errors)} harness errors, first: case {harness_errors[0][0]}: {harness_errors[0][1][-800:]}")
    if not samples:
        samples = [{k: v for k, v in c.items() if not k.startswith("_")} for c in cases[:3]]
    minnt = getattr(mod, "MIN_NONTRIVIAL", {}).get(tier, 2)
    if len(sigs) < minnt:
        inconclusive.append(f"only {len(sigs)} distinct non-trivial cases observed (< {minnt})")

    # ---- classify violations
    open_, fixed = load_known()
    open_keys = {o["key"]: o for o in open_ if o["property"] == pid}
    known_hit = collections.OrderedDict()
    new = []
    for case, v in viols:
        key = None
        if hasattr(mod, "classify"):
            try:
                key = mod.classify(case, v)
            except Exception:
                key = None
        if key is not None and key in open_keys:
            known_hit.setdefault(key, []).append((case, v))
        else:
            new.append((case, v))
    replay_paths = []
    rdir = Path(os.environ.get("VERIF_REPLAY_DIR") or VERIF / "replay")
    rdir.mkdir(exist_ok=True)
    seen = set()
    for case, v in new:
        blob = json.dumps({"case": case, "what": v.get("what")}, sort_keys=True, default=jdefault)
        hsh = hashlib.sha1(blob.encode()).hexdigest()[:12]
        if hsh in seen:
            continue
        seen.add(hsh)
        if len(replay_paths) >= 8:
            continue
        path = rdir / f"{pid}-{hsh}.json"
        path.write_text(json.dumps({"property": pid, "tier": tier, "seed": seed, "src": boot.src_dir(),
                                    "case": case, "violation": v}, indent=1, default=jdefault))
        replay_paths.append(path)

    coverage = {
        "evaluations": int(evals),
        "distinct_nontrivial": len(sigs),
        "rule": getattr(mod, "RULE", ""),
        "samples": samples,
        "cases_generated": len(cases),
        "cases_returned": len(results),
        "buckets": dict(sorted(buckets.items())),
        "monitor_counters": dict(sorted(counters.items())),
        "worst_residuals": {k: resid[k] for k in sorted(resid)},
        "skipped_by_precondition": dict(skipped),
        "known_findings_reproduced": {k: len(v) for k, v in known_hit.items()},
        "inconclusive_reasons": inconclusive,
        "verdict": "violated" if new else ("inconclusive" if inconclusive else "held"),
        "kernel_worlds": dict(collections.Counter(r.get("_world", "S") for r in results)),
        "tree": boot.src_dir(),
        "source_hash": boot.source_hash(),
    }
    coverage.update(fin.get("coverage", {}))
    ev = {
        "property_id": pid,
        "tier": tier,
        "seed": seed,
        "level": getattr(mod, "LEVEL", "exploration"),
        "coverage": coverage,
        "assumptions": getattr(mod, "ASSUMPTIONS", []),
        "wall_s": round(time.time() - t0, 2),
        "violations": len(new),
    }
    edir = Path(os.environ.get("VERIF_EVIDENCE_DIR") or VERIF / "evidence")
    edir.mkdir(exist_ok=True)
    (edir / f"{pid}.json").write_text(json.dumps(ev, indent=1, default=jdefault) + "\n")

    print(f"[{pid}] tier={tier} seed={seed} cases={len(cases)} evaluations={evals} "
          f"distinct_nontrivial={len(sigs)} wall={ev['wall_s']}s")
    if buckets:
        print(f"[{pid}] buckets: " + ", ".join(f"{k}={v}" for k, v in sorted(buckets.items())))
    if counters:
        print(f"[{pid}] monitors: " + ", ".join(f"{k}={v}" for k, v in sorted(counters.items())))
    if resid:
        print(f"[{pid}] worst residuals: " + ", ".join(f"{k}={resid[k]:.3g}" for k in sorted(resid)))
    if skipped:
        print(f"[{pid}] skipped by precondition: " + ", ".join(f"{k}={v}" for k, v in skipped.items()))
    for k, lst in known_hit.items():
        print(f"KNOWN-FINDING: property={pid} key={k} {open_keys[k]['text']} (reproduced on {len(lst)} cases)")
    if new:
        for pth in replay_paths:
            print(f"VIOLATION property={pid} replay={pth}")
        for case, v in new[:5]:
            print(f"  witness: {json.dumps(v, default=jdefault)[:600]}")
        return 1
    if inconclusive:
        for r in inconclusive:
            print(f"INCONCLUSIVE property={pid} reason={r}")
        return 2
    print(f"[{pid}] held on everything explored")
    return 0


if __name__ == "__main__":
    sys.exit(main())
