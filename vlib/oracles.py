"""Reference models that share no code with BLDFM."""

import numpy as np


def mode_wavenumbers(nx, ny, dx, dy):
    """(KX, KY, ok) on the halo=0 grid; ok = non-mean, off-Nyquist."""
    ix = np.fft.fftfreq(nx, 1.0 / nx)
    iy = np.fft.fftfreq(ny, 1.0 / ny)
    kx = 2 * np.pi * ix / (dx * nx)
    ky = 2 * np.pi * iy / (dy * ny)
    KX, KY = np.meshgrid(kx, ky)
    IX, IY = np.meshgrid(ix, iy)
    ok = ~((IX == 0) & (IY == 0))
    if nx % 2 == 0:
        ok &= np.abs(IX) < nx / 2
    if ny % 2 == 0:
        ok &= np.abs(IY) < ny / 2
    return KX, KY, ok


def halfspace_closed_form(q0hat, KX, KY, const, h, bg=0.0):
    """Constant (u, v, Kx, Ky, Kz): q(z) = q0 exp(-mu h), p = q/(Kz mu); mean mode p = bg - q0 h/Kz.

    q0hat: forward-normalised FFT of the source (ny, nx); h: array of heights above z0.
    Returns (P, Q) of shape (len(h), ny, nx) in the same normalisation.
    """
    u, v, Kx, Ky, Kz = const
    mu2 = (Kx * KX**2 + Ky * KY**2 + 1j * (u * KX + v * KY)) / Kz
    mu = np.sqrt(mu2)
    mu = np.where(mu.real < 0, -mu, mu)
    h = np.asarray(h, dtype=float).reshape(-1, 1, 1)
    with np.errstate(divide="ignore", invalid="ignore"):
        Q = q0hat[None] * np.exp(-mu[None] * h)
        P = Q / (Kz * mu[None])
    Q[:, 0, 0] = q0hat[0, 0]
    P[:, 0, 0] = bg - q0hat[0, 0] * h[:, 0, 0] / Kz
    return P, Q


def riccati_bvp(fam, kx, ky, z0, ztop, zout, rtol=1e-11, atol=1e-13):
    """Exact steady advection-diffusion BVP per Fourier mode, independent of shooting / layer propagators.

    p' = -q/Kz, q' = T p,  T = -(Kx kx^2 + Ky ky^2) - i (u kx + v ky),
    q(z0) = 1 (unit surface flux), decaying constant-coefficient continuation above ztop:
    q = Kz mu p at ztop with mu = sqrt(-T/Kz) (Re > 0) from the top-node coefficients.

    Admittance Y = q/p obeys Y' = T + Y^2/Kz, integrated downward from Y(ztop) = Kz mu; then
    (ln p)' = -Y/Kz upward from p(z0) = 1/Y(z0).  kx, ky: 1-D arrays of modes.
    Returns (Hp, Hq), each (len(zout), nmodes): p(z)/q0 and q(z)/q0.
    """
    from scipy.integrate import solve_ivp

    kx = np.asarray(kx, dtype=float)
    ky = np.asarray(ky, dtype=float)
    n = kx.size

    def coeffs(z):
        u, v, Kx, Ky, Kz = [np.asarray(a, dtype=float).ravel()[0] for a in fam(np.array([z]))]
        T = -(Kx * kx**2 + Ky * ky**2) - 1j * (u * kx + v * ky)
        return T, Kz

    Tt, Kzt = coeffs(ztop)
    mu = np.sqrt(-Tt / Kzt)
    mu = np.where(mu.real < 0, -mu, mu)
    Ytop = Kzt * mu

    def fY(z, y):
        Y = y[:n] + 1j * y[n:]
        T, Kz = coeffs(z)
        d = T + Y * Y / Kz
        return np.concatenate([d.real, d.imag])

    solY = solve_ivp(fY, (ztop, z0), np.concatenate([Ytop.real, Ytop.imag]), method="DOP853", rtol=rtol, atol=atol, dense_output=True)
    if not solY.success:
        raise RuntimeError("Riccati integration failed: " + solY.message)

    def Yat(z):
        y = solY.sol(z)
        return y[:n] + 1j * y[n:]

    Y0 = Yat(z0)

    def fL(z, y):
        _, Kz = coeffs(z)
        d = -Yat(z) / Kz
        return np.concatenate([d.real, d.imag])

    l0 = -np.log(Y0)
    zs = np.asarray(zout, dtype=float)
    order = np.argsort(zs)
    solL = solve_ivp(fL, (z0, ztop), np.concatenate([l0.real, l0.imag]), method="DOP853", rtol=rtol, atol=atol, dense_output=True)
    if not solL.success:
        raise RuntimeError("log-p integration failed: " + solL.message)
    Hp = np.empty((len(zs), n), dtype=complex)
    Hq = np.empty((len(zs), n), dtype=complex)
    for k in order:
        zz = min(max(zs[k], z0), ztop)
        l = solL.sol(zz)
        p = np.exp(l[:n] + 1j * l[n:])
        Hp[k] = p
        Hq[k] = Yat(zz) * p
    return Hp, Hq


def riccati_selftest():
    """Constant coefficients: Hq must equal exp(-mu h), Hp = Hq/(Kz mu).  Returns the max error."""

    def fam(z):
        one = np.ones_like(np.asarray(z, dtype=float))
        return (2.0 * one, -1.5 * one, 0.7 * one, 1.3 * one, 0.5 * one)

    kx = np.array([0.05, -0.2, 0.4, 0.0])
    ky = np.array([0.1, 0.3, -0.05, 0.25])
    zout = np.array([0.1, 1.0, 3.0, 5.0])
    Hp, Hq = riccati_bvp(fam, kx, ky, 0.1, 5.0, zout)
    mu = np.sqrt((0.7 * kx**2 + 1.3 * ky**2 + 1j * (2.0 * kx - 1.5 * ky)) / 0.5)
    ref = np.exp(-mu[None, :] * (zout[:, None] - 0.1))
    return float(max(np.max(np.abs(Hq - ref)), np.max(np.abs(Hp - ref / (0.5 * mu)) * np.abs(0.5 * mu))))
