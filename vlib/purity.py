"""Argument-purity monitor shared by the checks.

`guarded(fn, name)` wraps a public callable of the code under test.  Around every call it

* snapshots every ndarray / list argument (recursively through tuples, lists and dicts; small objects only),
* after the call compares the caller's objects with the snapshots, and
* when an argument object was modified by the call, *confirms* the observable consequence before reporting: the call is
  repeated with the very same (now modified) argument objects - what a user loop that keeps its arrays does - and the
  result is compared with the first one.  Only a differing (or failing) repeat is reported as a violation
  ("repeating a call returns the same fields"); a modification without consequence is only counted.

Violations and counters are collected in module-level state that `vlib.worker` drains after every case and merges into the
case's result, so every check that routes its calls through a guarded callable gets the monitor for free.
"""

import copy

import numpy as np

VIOLATIONS = []
COUNTERS = {}
MAX_ELEMS = 2_000_000


def _count(k, n=1):
    COUNTERS[k] = COUNTERS.get(k, 0) + n


def drain():
    v, c = list(VIOLATIONS), dict(COUNTERS)
    VIOLATIONS.clear()
    COUNTERS.clear()
    return v, c


# ---- result independence: what a call hands back belongs to the caller.  Every array returned through a guarded callable is kept
# until the case has been judged and is then overwritten with NaN; if the code under test kept a reference to it (an in-memory
# memo handing out its own arrays), later calls return poisoned values, which the finiteness monitor and the relations see.
_RESULTS = []


def track(res, depth=0):
    if isinstance(res, np.ndarray):
        _RESULTS.append(res)
    elif isinstance(res, (list, tuple)) and depth < 4:
        for x in res:
            track(x, depth + 1)
    elif isinstance(res, dict) and depth < 4:
        for x in res.values():
            track(x, depth + 1)


def poison(res=None):
    """Overwrite tracked result arrays (or the given result) with NaN / extreme values."""
    if res is not None:
        keep = list(_RESULTS)
        _RESULTS.clear()
        track(res)
        poison()
        _RESULTS.extend(keep)
        return
    n = 0
    for a in _RESULTS:
        try:
            if a.flags.writeable and a.size:
                if a.dtype.kind in "fc":
                    a[...] = np.nan
                    n += 1
                elif a.dtype.kind in "iu":
                    a[...] = np.iinfo(a.dtype).max
                    n += 1
        except Exception:
            pass
    _RESULTS.clear()
    if n:
        _count("result_arrays_poisoned_after_use", n)


def _snap(o, depth=0):
    if isinstance(o, np.ndarray):
        return ("a", o.copy()) if o.size <= MAX_ELEMS else None
    if isinstance(o, (list, tuple)) and depth < 3:
        return ("s", type(o), [_snap(x, depth + 1) for x in o])
    if isinstance(o, dict) and depth < 3:
        return ("d", {k: _snap(v, depth + 1) for k, v in o.items()})
    if hasattr(o, "__dataclass_fields__") and depth < 2:
        try:
            return ("c", copy.deepcopy(o))
        except Exception:
            return None
    return None


def _changed(o, s, path, out, depth=0):
    if s is None:
        return
    if s[0] == "a":
        same = o.shape == s[1].shape and o.dtype == s[1].dtype and np.array_equal(o, s[1], equal_nan=(o.dtype.kind in "fc"))
        if not same:
            out.append({"argument": path, "before": np.asarray(s[1]).ravel()[:6].tolist(), "after": np.asarray(o).ravel()[:6].tolist()})
    elif s[0] == "s":
        if len(o) != len(s[2]):
            out.append({"argument": path, "before": f"{len(s[2])} items", "after": f"{len(o)} items"})
            return
        for i, (x, sx) in enumerate(zip(o, s[2])):
            if sx is None and not isinstance(x, (np.ndarray, list, tuple, dict)):
                continue
            _changed(x, sx, f"{path}[{i}]", out, depth + 1)
    elif s[0] == "d":
        for k, sv in s[1].items():
            if k in o:
                _changed(o[k], sv, f"{path}[{k!r}]", out, depth + 1)
    elif s[0] == "c":
        try:
            if o != s[1]:
                out.append({"argument": path, "before": repr(s[1])[:120], "after": repr(o)[:120]})
        except Exception:
            pass


def _prims(o):
    """repr of the primitive skeleton of lists (catches in-place sort/append of a plain list argument)."""
    if isinstance(o, list):
        return [(_prims(x) if isinstance(x, (list, tuple)) else (repr(x) if not isinstance(x, (np.ndarray, dict)) else None)) for x in o]
    if isinstance(o, tuple):
        return tuple(_prims(x) if isinstance(x, (list, tuple)) else None for x in o)
    return None


def _equal_results(a, b):
    if isinstance(a, np.ndarray) or isinstance(b, np.ndarray):
        a, b = np.asarray(a), np.asarray(b)
        return a.shape == b.shape and np.array_equal(a, b, equal_nan=(a.dtype.kind in "fc"))
    if isinstance(a, (list, tuple)) and isinstance(b, (list, tuple)):
        return len(a) == len(b) and all(_equal_results(x, y) for x, y in zip(a, b))
    if isinstance(a, dict) and isinstance(b, dict):
        return a.keys() == b.keys() and all(_equal_results(a[k], b[k]) for k in a)
    try:
        r = a == b
        return bool(r) if not isinstance(r, np.ndarray) else bool(r.all())
    except Exception:
        return True


def guarded(fn, name=None):
    name = name or getattr(fn, "__name__", "callable")

    def wrapper(*args, **kw):
        snaps = [_snap(a) for a in args]
        ksnaps = {k: _snap(v) for k, v in kw.items()}
        prims = ([_prims(a) for a in args], {k: _prims(v) for k, v in kw.items()})
        res = fn(*args, **kw)
        _count(f"purity_monitored_calls:{name}")
        track(res)
        ch = []
        for i, (a, s) in enumerate(zip(args, snaps)):
            _changed(a, s, f"arg{i}", ch)
            if prims[0][i] is not None and _prims(a) != prims[0][i]:
                ch.append({"argument": f"arg{i}", "before": repr(prims[0][i])[:120], "after": repr(_prims(a))[:120]})
        for k, s in ksnaps.items():
            _changed(kw[k], s, k, ch)
            if prims[1][k] is not None and _prims(kw[k]) != prims[1][k]:
                ch.append({"argument": k, "before": repr(prims[1][k])[:120], "after": repr(_prims(kw[k]))[:120]})
        if ch:
            _count(f"argument_modified_in_place:{name}")
            # confirm the consequence: the same call again, with the caller's own (now modified) objects
            try:
                res2 = fn(*args, **kw)
                same = _equal_results(res, res2)
                exc = None
            except Exception as e:  # noqa
                same, exc = False, repr(e)[:200]
            if not same:
                VIOLATIONS.append({"what": "repeat_with_the_same_argument_objects_differs", "callable": name, "modified_arguments": ch[:4],
                                   "repeat_raised": exc})
        return res

    wrapper.__wrapped__ = fn
    wrapper.__name__ = getattr(fn, "__name__", "wrapper")
    return wrapper
