#!/bin/bash
# MANIFEST.setup_cmd: offline install of the contract libraries next to the
# repository's interpreter (into /verif/.deps, git-ignored) and JIT warm-up.
cd "$(dirname "$0")"
export PIP_NO_INDEX=1
if [ ! -d .deps/icontract ]; then
  /venv/bin/pip install --quiet --no-index --find-links /opt/veriftools/wheels \
     --target .deps icontract deal 2>&1 | tail -2 || true
fi
/venv/bin/python - <<'PY'
import sys, subprocess, tempfile, shutil
sys.path.insert(0, '.')
from vlib import boot, runner
d = tempfile.mkdtemp(prefix='bldfm-verif-setup-')
try:
    runner.warm_numba(boot.child_env(), d)
finally:
    shutil.rmtree(d, ignore_errors=True)
print('setup ok; icontract present:', (boot.VERIF/'.deps'/'icontract').exists())
PY
