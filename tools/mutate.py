#!/venv/bin/python
"""Self-validation: apply hand-seeded faults to a scratch copy of /repo/src and
confirm the property's quick check reports VIOLATION.

    tools/mutate.py [-p C20] [-m name] [--tier quick] [--baseline]

Mutants live in tools/mutants.py as (name, property, file, old, new).  The
scratch copy is created under a temp dir (outside /repo and /verif) and removed.
The checks are pointed at it with BLDFM_VERIF_SRC (never used by registered commands).
"""

import argparse
import importlib.util
import os
import shutil
import subprocess
import sys
import tempfile
import time
from pathlib import Path

VERIF = Path(__file__).resolve().parent.parent


def load():
    spec = importlib.util.spec_from_file_location("mutants", VERIF / "tools" / "mutants.py")
    m = importlib.util.module_from_spec(spec)
    spec.loader.exec_module(m)
    return m.MUTANTS


def main():
    ap = argparse.ArgumentParser()
    ap.add_argument("-p", "--prop", action="append")
    ap.add_argument("-m", "--mutant", action="append")
    ap.add_argument("--tier", default="quick")
    ap.add_argument("--src", default="/repo/src")
    ap.add_argument("--jobs", type=int, default=1)
    ap.add_argument("--json", default=None, help="append one JSON line per mutant to this file")
    a = ap.parse_args()
    muts = [m for m in load() if (not a.prop or m[1] in a.prop) and (not a.mutant or m[0] in a.mutant)]
    rows = []
    for name, prop, file, old, new in muts:
        d = tempfile.mkdtemp(prefix="bldfm-mut-")
        try:
            shutil.copytree(a.src, d + "/src", ignore=shutil.ignore_patterns("__pycache__"))
            p = Path(d) / "src" / "bldfm" / file
            s = p.read_text()
            if s.count(old) != 1:
                rows.append((name, prop, f"NOT-APPLIED (old text occurs {s.count(old)}x)"))
                print(f"{prop} {name:40s} {rows[-1][2]}", flush=True)
                continue
            p.write_text(s.replace(old, new))
            # must still import
            r = subprocess.run(["/venv/bin/python", "-c", "import bldfm"], env=dict(os.environ, PYTHONPATH=d + "/src"),
                               capture_output=True, text=True, cwd=d)
            if r.returncode != 0:
                rows.append((name, prop, "DOES-NOT-IMPORT"))
                continue
            t = time.time()
            env = dict(os.environ, BLDFM_VERIF_SRC=d + "/src", VERIF_EVIDENCE_DIR=d + "/ev", VERIF_REPLAY_DIR=d + "/rp")
            r = subprocess.run([str(VERIF / "check"), prop, "--tier", a.tier], env=env, capture_output=True, text=True, cwd=VERIF)
            whats = sorted({l.split('"what": "')[1].split('"')[0] for l in r.stdout.splitlines() if '"what": "' in l})
            verdict = {0: "MISSED", 1: "caught", 2: "INCONCLUSIVE"}.get(r.returncode, f"rc={r.returncode}")
            rows.append((name, prop, f"{verdict} ({time.time()-t:.0f}s) {whats[:4]}"))
            if r.returncode == 2:
                print(r.stdout[-1500:])
        finally:
            shutil.rmtree(d, ignore_errors=True)
        print(f"{rows[-1][1]} {rows[-1][0]:40s} {rows[-1][2]}", flush=True)
        if a.json:
            import json

            with open(a.json, "a") as fh:
                fh.write(json.dumps({"mutant": rows[-1][0], "property": rows[-1][1], "result": rows[-1][2], "tier": a.tier}) + "\n")
    missed = [r for r in rows if not r[2].startswith("caught")]
    print(f"\n{len(rows)-len(missed)}/{len(rows)} caught")
    return 1 if missed else 0


if __name__ == "__main__":
    sys.exit(main())
