#!/usr/bin/env python3
"""python3-vt tools/validate_evidence.py : validates evidence/*.json and MANIFEST.json against the schemas."""
import glob, json, sys
import jsonschema
ok = True
es = json.load(open('/root/.vp/EVIDENCE.schema.json'))
for f in sorted(glob.glob('evidence/*.json')):
    try:
        jsonschema.validate(json.load(open(f)), es); print('ok ', f)
    except Exception as e:
        ok = False; print('BAD', f, str(e)[:300])
jsonschema.validate(json.load(open('MANIFEST.json')), json.load(open('/root/.vp/MANIFEST.schema.json')))
print('manifest ok')
sys.exit(0 if ok else 1)
