#!/venv/bin/python
"""Prints the generated parts of DESIGN.md section 8 (hand-seeded fault table, independent seeded changes)."""
import collections, glob, json, importlib.util
from pathlib import Path
V = Path(__file__).resolve().parent.parent
spec = importlib.util.spec_from_file_location("m", V / "tools" / "mutants.py"); m = importlib.util.module_from_spec(spec); spec.loader.exec_module(m)
res = {}
f = V / "notes" / "mutants_last_run.jsonl"
if f.exists():
    for l in open(f):
        r = json.loads(l); res[r["mutant"]] = r["result"]
byp = collections.defaultdict(list)
for name, prop, file, old, new in m.MUTANTS:
    byp[prop].append(name)
print("### 8.4 Hand-seeded faults (`tools/mutants.py`, run with `tools/mutate_all.sh`)\n")
print("Each fault is applied to a scratch copy of `src/` (outside `/repo` and `/verif`), must still import, and the property's *quick*")
print("tier is pointed at it with `BLDFM_VERIF_SRC`.  Last full run:\n")
print("| property | faults | caught by the quick tier | names |\n|---|---|---|---|")
tot = caught = 0
for p in sorted(byp):
    n = len(byp[p]); c = sum(res.get(x, "").startswith("caught") for x in byp[p]); tot += n; caught += c
    print(f"| {p} | {n} | {c} | {', '.join(x.split('_',1)[1] for x in byp[p])} |")
print(f"\nTotal {caught}/{tot} caught.  The pinned tree's own defects served as the first faults: C02, C03, C05, C09, C10, C11, C14, C15, C16, C18 and C19 report")
print("VIOLATION on the pinned tree (`git worktree` of `fb2b440`) and hold on the repaired one.\n")
print("### 8.5 Independent seeded changes (`seeded/`, `tools/seeded.py`)\n")
print("Written by fresh sub-agents that were given only the text of one property and a scratch worktree, never anything from `/verif`.")
print("Each was confirmed by me in a new scratch worktree of `/repo` HEAD: patch applies, `demo.py` exits 1 with it and 0 without it, the")
print("repository's unedited suite passes with it (135 passed); then all twenty quick tiers were pointed at the patched tree.\n")
print("| change | property | needs in order to manifest | own check when the change arrived | own check now | other checks that fire |\n|---|---|---|---|---|---|")
W = {0: "missed", 1: "caught", 2: "inconclusive", None: "-"}
for mf in sorted(glob.glob(str(V / "seeded" / "*" / "meta.json"))):
    x = json.load(open(mf)); ch = x.get("checks", {})
    own = ch.get(x["property"], {}).get("exit")
    others = ", ".join(k for k, v in sorted(ch.items()) if v["exit"] == 1 and k != x["property"]) or "-"
    conf = "" if x.get("confirmed") else " (NOT CONFIRMED)"
    bf = x.get("own_check_before_strengthening")
    before = W.get(bf.get("exit"), str(bf.get("exit"))) if isinstance(bf, dict) else (str(bf)[:40] if bf else "-")
    note = (" (" + x["strengthened"] + ")") if x.get("strengthened") else ""
    print(f"| {x['name']}{conf} | {x['property']} | {x['needs_to_manifest']} | {before} | {W.get(own, str(own))}{note} | {others} |")
