#!/bin/bash
# run the whole hand-seeded fault table, 4 properties at a time; results -> notes/mutants_last_run.jsonl
cd "$(dirname "$0")/.."
out=notes/mutants_last_run.jsonl; : > $out
props=$(/venv/bin/python -c "
import importlib.util
s=importlib.util.spec_from_file_location('m','tools/mutants.py'); m=importlib.util.module_from_spec(s); s.loader.exec_module(m)
print(' '.join(sorted({x[1] for x in m.MUTANTS})))")
echo $props | tr ' ' '\n' | xargs -P 4 -I{} tools/mutate.py -p {} --json $out > /dev/null 2>&1
/venv/bin/python - <<'PY'
import json,collections
rows=[json.loads(l) for l in open('notes/mutants_last_run.jsonl')]
c=collections.Counter((r['property'], r['result'].split()[0]) for r in rows)
for p in sorted({r['property'] for r in rows}):
    print(p, {k[1]:v for k,v in c.items() if k[0]==p})
print('total', len(rows), 'caught', sum(r['result'].startswith('caught') for r in rows))
for r in rows:
    if not r['result'].startswith('caught'): print('NOT CAUGHT', r)
PY
