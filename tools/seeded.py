#!/venv/bin/python
"""Independent seeded changes (written by sub-agents that saw only the property text).

    tools/seeded.py harvest <PROP> <agent-worktree> <name> "<what it needs to manifest>"
        -> seeded/<name>/{patch.diff, demo.py, NOTES.md, meta.json}
    tools/seeded.py verify <name> [--all-checks] [--tier quick]
        scratch worktree of /repo HEAD (outside /repo and /verif): apply, demo must fail; revert, demo must pass;
        apply, the repository's unedited test suite must pass; then the property's check is pointed at the patched
        tree and must report VIOLATION.  Results are written into meta.json.  The worktree is removed afterwards.
    tools/seeded.py table          -> markdown table of all kept changes
"""

import json
import os
import shutil
import subprocess
import sys
import tempfile
import time
from pathlib import Path

VERIF = Path(__file__).resolve().parent.parent
PY = "/venv/bin/python"


def sh(cmd, **kw):
    return subprocess.run(cmd, capture_output=True, text=True, **kw)


def harvest(prop, wt, name, needs):
    d = VERIF / "seeded" / name
    d.mkdir(parents=True, exist_ok=True)
    diff = sh(["git", "-C", wt, "diff", "--", "src"]).stdout
    if not diff.strip():
        sys.exit("no diff in " + wt)
    (d / "patch.diff").write_text(diff)
    for f in ("demo.py", "NOTES.md"):
        if os.path.exists(os.path.join(wt, f)):
            txt = open(os.path.join(wt, f)).read().replace(wt.rstrip("/"), "<worktree>")
            (d / f).write_text(txt)
    meta = {"property": prop, "name": name, "origin": "sub-agent given only the property text and a scratch worktree",
            "needs_to_manifest": needs, "files_changed": [l[6:] for l in diff.splitlines() if l.startswith("+++ b/")]}
    (d / "meta.json").write_text(json.dumps(meta, indent=1) + "\n")
    print("harvested", d)


def harvestdir(prop, src, name, needs):
    """harvest from a directory holding patch.diff, demo.py, NOTES.md (one change of an agent that delivered several)"""
    d = VERIF / "seeded" / name
    d.mkdir(parents=True, exist_ok=True)
    diff = open(os.path.join(src, "patch.diff")).read()
    (d / "patch.diff").write_text(diff)
    wt = os.path.dirname(os.path.dirname(os.path.abspath(src)))
    for f in ("demo.py", "NOTES.md"):
        if os.path.exists(os.path.join(src, f)):
            (d / f).write_text(open(os.path.join(src, f)).read().replace(wt, "<worktree>"))
    meta = {"property": prop, "name": name, "origin": "sub-agent given only the property text and a scratch worktree",
            "needs_to_manifest": needs, "files_changed": [l[6:] for l in diff.splitlines() if l.startswith("+++ b/")]}
    (d / "meta.json").write_text(json.dumps(meta, indent=1) + "\n")
    print("harvested", d)


def verify(name, all_checks=False, tier="quick", before=False):
    d = VERIF / "seeded" / name
    meta = json.loads((d / "meta.json").read_text())
    prop = meta["property"]
    wt = tempfile.mkdtemp(prefix="bldfm-seeded-")
    os.rmdir(wt)
    ran = []
    try:
        r = sh(["git", "-C", "/repo", "worktree", "add", "--detach", wt, "HEAD"])
        assert r.returncode == 0, r.stderr
        env = dict(os.environ, PYTHONPATH=wt + "/src", MPLBACKEND="Agg", NUMBA_CACHE_DIR=wt + "/.nb")
        demo = (d / "demo.py").read_text().replace("<worktree>", wt)
        open(wt + "/demo.py", "w").write(demo)

        def apply():
            r = sh(["git", "-C", wt, "apply", str(d / "patch.diff")])
            if r.returncode != 0:
                # the repository moved on under the change (a fix: commit next to its hunk): re-apply with context fuzz and keep the rebased patch
                r2 = sh(["patch", "-s", "-p1", "-F3", "--no-backup-if-mismatch", "-i", str(d / "patch.diff")], cwd=wt)
                assert r2.returncode == 0, r.stderr + r2.stdout
                rebased = sh(["git", "-C", wt, "diff", "--", "src"]).stdout
                (d / "patch.diff").write_text(rebased)
                meta["rebased_onto_repo_commit"] = sh(["git", "-C", "/repo", "log", "--format=%h", "-1"]).stdout.strip()

        def run_demo():
            r = sh([PY, "demo.py"], cwd=wt, env=env, timeout=1800)
            return r.returncode

        apply()
        rc_with = run_demo()
        ran.append(f"git apply patch.diff; python demo.py -> exit {rc_with}")
        sh(["git", "-C", wt, "checkout", "--", "src"])
        rc_without = run_demo()
        ran.append(f"git checkout -- src; python demo.py -> exit {rc_without}")
        apply()
        t = sh([PY, "-m", "pytest", "-q", "-p", "no:cacheprovider", "--timeout=900"], cwd=wt, env=env, timeout=3600)
        summary = ([l for l in t.stdout.splitlines() if " passed" in l or " failed" in l] or ["?"])[-1]
        ran.append(f"patch applied; python -m pytest -q -> {summary}")
        meta["demo_exit_with_change"] = rc_with
        meta["demo_exit_without_change"] = rc_without
        meta["test_suite_with_change"] = summary
        meta["confirmed"] = bool(rc_with != 0 and rc_without == 0 and " passed" in summary and " failed" not in summary)
        ids = [prop] + ([f"C{i:02d}" for i in range(1, 21) if f"C{i:02d}" != prop] if all_checks else [])
        caught = {}
        for pid in ids:
            e = dict(os.environ, BLDFM_VERIF_SRC=wt + "/src", VERIF_EVIDENCE_DIR=wt + "/ev", VERIF_REPLAY_DIR=wt + "/rp")
            t0 = time.time()
            c = sh([str(VERIF / "check"), pid, "--tier", tier], env=e, cwd=VERIF, timeout=3600)
            whats = sorted({l.split('"what": "')[1].split('"')[0] for l in c.stdout.splitlines() if '"what": "' in l})
            caught[pid] = {"exit": c.returncode, "violations": whats[:6], "seconds": round(time.time() - t0)}
            ran.append(f"BLDFM_VERIF_SRC=<patched tree> ./check {pid} --tier {tier} -> exit {c.returncode} {whats[:3]}")
        if before:
            # result of the check as it stood when the change arrived (before it was strengthened)
            meta["own_check_before_strengthening"] = caught[prop]
            (d / "meta.json").write_text(json.dumps(meta, indent=1) + "\n")
            print(name, "BEFORE strengthening:", caught[prop])
            return
        meta.setdefault("checks", {}).update(caught)
        meta["caught_by_own_check"] = meta["checks"][prop]["exit"] == 1
        meta["what_was_run"] = ran
        (d / "meta.json").write_text(json.dumps(meta, indent=1) + "\n")
        print(name, "confirmed" if meta["confirmed"] else "NOT-CONFIRMED", "| demo", rc_with, rc_without, "|", summary, "|",
              {k: v["exit"] for k, v in caught.items()})
    finally:
        sh(["git", "-C", "/repo", "worktree", "remove", "--force", wt])
        shutil.rmtree(wt, ignore_errors=True)


def recheck(name, tier="quick", props=None):
    """Fast regression: scratch copy of /repo/src with the patch applied, the property's own check pointed at it (no demo, no test
    suite - those were confirmed when the change was harvested).  Updates checks[<property>] in meta.json."""
    d = VERIF / "seeded" / name
    meta = json.loads((d / "meta.json").read_text())
    prop = meta["property"]
    tmp = tempfile.mkdtemp(prefix="bldfm-recheck-")
    try:
        shutil.copytree("/repo/src", tmp + "/src", ignore=shutil.ignore_patterns("__pycache__"))
        r = sh(["patch", "-s", "-p1", "-i", str(d / "patch.diff")], cwd=tmp)
        if r.returncode != 0:
            print(name, "PATCH-DOES-NOT-APPLY", r.stdout[-200:])
            return
        e = dict(os.environ, BLDFM_VERIF_SRC=tmp + "/src", VERIF_EVIDENCE_DIR=tmp + "/ev", VERIF_REPLAY_DIR=tmp + "/rp")
        for pid in (props or [prop]):
            t0 = time.time()
            c = sh([str(VERIF / "check"), pid, "--tier", tier], env=e, cwd=VERIF, timeout=3600)
            whats = sorted({l.split('"what": "')[1].split('"')[0] for l in c.stdout.splitlines() if '"what": "' in l})
            meta.setdefault("checks", {})[pid] = {"exit": c.returncode, "violations": whats[:6], "seconds": round(time.time() - t0)}
            if pid != prop:
                print(name, "other check", pid, {0: "MISSED", 1: "caught", 2: "INCONCLUSIVE"}.get(c.returncode, c.returncode), whats[:3])
        if prop not in (props or [prop]):
            (d / "meta.json").write_text(json.dumps(meta, indent=1) + "\n")
            return
        c = type("R", (), {"returncode": meta["checks"][prop]["exit"]})
        whats = meta["checks"][prop]["violations"]
        meta["caught_by_own_check"] = c.returncode == 1
        meta["rechecked_against_repo_commit"] = sh(["git", "-C", "/repo", "log", "--format=%h", "-1"]).stdout.strip()
        (d / "meta.json").write_text(json.dumps(meta, indent=1) + "\n")
        print(name, {0: "MISSED", 1: "caught", 2: "INCONCLUSIVE"}.get(c.returncode, c.returncode), whats[:3])
    finally:
        shutil.rmtree(tmp, ignore_errors=True)


def table():
    rows = []
    for m in sorted((VERIF / "seeded").glob("*/meta.json")):
        x = json.loads(m.read_text())
        ch = x.get("checks", {})
        catch = ", ".join(f"{k}" for k, v in ch.items() if v["exit"] == 1) or "-"
        rows.append(f"| {x['name']} | {x['property']} | {x['needs_to_manifest'][:110]} | {'yes' if x.get('confirmed') else 'no'} | {catch} |")
    print("| change | property | needs | confirmed | caught by |\n|---|---|---|---|---|")
    print("\n".join(rows))


if __name__ == "__main__":
    a = sys.argv[1:]
    if a[0] == "harvest":
        harvest(a[1], a[2], a[3], a[4])
    elif a[0] == "harvestdir":
        harvestdir(a[1], a[2], a[3], a[4])
    elif a[0] == "verify":
        tier = a[a.index("--tier") + 1] if "--tier" in a else "quick"
        verify(a[1], "--all-checks" in a, tier, "--before" in a)
    elif a[0] == "recheck":
        recheck(a[1], a[a.index("--tier") + 1] if "--tier" in a else "quick", a[a.index("--checks") + 1].split(",") if "--checks" in a else None)
    elif a[0] == "table":
        table()
