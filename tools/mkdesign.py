#!/venv/bin/python
"""Re-assembles section 8 of DESIGN.md from notes/design_sec8_head.md + generated tables + notes/design_sec8_tail.md."""
import subprocess
from pathlib import Path
V = Path(__file__).resolve().parent.parent
d = (V / "DESIGN.md").read_text()
marker = "\n---------------------------------------------------------------------------\n\n## 8. As built"
if marker in d:
    d = d[: d.index(marker)]
d = d.rstrip("\n") + "\n"
tables = subprocess.run([str(V / "tools" / "mkdesign_tables.py")], capture_output=True, text=True).stdout
d += (V / "notes" / "design_sec8_head.md").read_text() + "\n" + tables + (V / "notes" / "design_sec8_tail.md").read_text()
(V / "DESIGN.md").write_text(d)
print("DESIGN.md section 8 rebuilt:", len(d.splitlines()), "lines")
