"""Hand-seeded faults (DESIGN.md section 4, 'Seeded faults').  (name, property, file under src/bldfm, old, new)"""

MUTANTS = [
    # ---- C20
    ("c20_inclusive_cumsum", "C20", "utils.py", "    M_shifted[1:] = M_cum[:-1]\n", "    M_shifted[:] = M_cum\n"),
    ("c20_ascending_sort", "C20", "utils.py", "    order = np.argsort(g_flat)[::-1]\n", "    order = np.argsort(g_flat)\n"),
    ("c20_searchsorted_right", "C20", "plotting/footprint.py", "k = np.searchsorted(cumsum, target)", "k = np.searchsorted(cumsum, target, side='right')"),
    ("c20_area_k", "C20", "plotting/footprint.py", "area = (k + 1) * cell_area", "area = k * cell_area"),
    ("c20_level_km1", "C20", "plotting/footprint.py", "level = sorted_vals[min(k, len(sorted_vals) - 1)]", "level = sorted_vals[max(min(k, len(sorted_vals) - 1) - 1, 0)]"),
    ("c20_cell_area_dx2", "C20", "plotting/footprint.py", "cell_area = dx * dy", "cell_area = dx * dx"),
    # ---- C16
    ("c16_len_mol_first", "C16", "config_parser.py", '        for name in ("ustar", "mol", "wind_speed", "wind_dir"):\n            val = getattr(self, name)\n            if isinstance(val, list):\n                return len(val)\n', '        for name in ("ustar", "wind_speed"):\n            val = getattr(self, name)\n            if isinstance(val, list):\n                return len(val)\n'),
    ("c16_get_first", "C16", "config_parser.py", "return val[idx] if isinstance(val, list) else val", "return val[0] if isinstance(val, list) else val"),
    ("c16_timestamp_off_by_one", "C16", "config_parser.py", 'result["timestamp"] = self.timestamps[i]', 'result["timestamp"] = self.timestamps[min(i + 1, len(self.timestamps) - 1)]'),
    ("c16_skip_validation_with_z0", "C16", "config_parser.py", '        list_fields = {}\n', '        if self.z0 is not None:\n            return\n        list_fields = {}\n'),
    ("c16_timestamp_index_when_absent", "C16", "config_parser.py", '            result["timestamp"] = i\n', '            result["timestamp"] = 0\n'),
    # ---- C17
    ("c17_cos_point_lat", "C17", "config_parser.py", "x = _EARTH_RADIUS * (lon_r - ref_lon_r) * math.cos(ref_lat_r)", "x = _EARTH_RADIUS * (lon_r - ref_lon_r) * math.cos(lat_r)"),
    ("c17_inverse_axes_swapped", "C17", "plotting/_geo.py", "    lats = ref_lat + np.degrees(y / R)\n", "    lats = ref_lat + np.degrees(x / R)\n"),
    ("c17_lon_sign", "C17", "config_parser.py", "(lon_r - ref_lon_r)", "(ref_lon_r - lon_r)"),
    ("c17_radius", "C17", "plotting/_geo.py", "R = 6_371_000.0", "R = 6_378_137.0"),
    ("c17_no_cos_in_inverse", "C17", "plotting/_geo.py", "np.degrees(x / (R * np.cos(np.radians(ref_lat))))", "np.degrees(x / R)"),
]

MUTANTS += [
    # ---- C19
    ("c19_exponent", "C19", "ffm_kormann_meixner.py", "* x[sflag] ** (mr - 2 - mu)", "* x[sflag] ** (mr - 1 - mu)"),
    ("c19_gamma_r", "C19", "ffm_kormann_meixner.py", "spsp.gamma(1 / r)", "spsp.gamma(r)"),
    ("c19_downwind", "C19", "ffm_kormann_meixner.py", "sflag = x > 0  # Only", "sflag = x < 0  # Only"),
    ("c19_rotation_sign", "C19", "ffm_kormann_meixner.py", "new_theta = theta + np.deg2rad(wd) - np.pi * 0.5", "new_theta = theta + np.deg2rad(wd) + np.pi * 0.5"),
    ("c19_n_24_16", "C19", "ffm_kormann_meixner.py", "n[sflag] = (1 - 24 * zm[sflag] / mo_len[sflag])", "n[sflag] = (1 - 16 * zm[sflag] / mo_len[sflag])"),
    ("c19_cell_area", "C19", "ffm_kormann_meixner.py", "        grid_res**2\n", "        grid_res\n"),
    ("c19_zeros_like_int", "C19", "ffm_kormann_meixner.py", "    psi_m = np.zeros_like(zm, dtype=float)\n", "    psi_m = np.zeros_like(zm)\n"),
    ("c19_z0_window_wrap", "C19", "ffm_kormann_meixner.py", "        elif kk > 270:\n", "        elif kk > 350:\n"),
    ("c19_mirror_wd", "C19", "ffm_kormann_meixner.py", "new_theta = theta + np.deg2rad(wd) - np.pi * 0.5", "new_theta = -theta + np.deg2rad(wd) - np.pi * 0.5"),
]

MUTANTS += [
    # ---- C09
    ("c09_psi_sign", "C09", "pbl_model.py", "        5.0 * x,\n", "        -5.0 * x,\n"),
    ("c09_dzeta", "C09", "pbl_model.py", "    dzeta = zm / n\n", "    dzeta = zm / (n + 1)\n"),
    ("c09_uv_swapped", "C09", "pbl_model.py", "        u = um / absum * absu\n        v = vm / absum * absu\n\n        K = kap * ustar * z / phi(z / mol) / prsc\n        Kx = Ky = Kz = K\n", "        u = vm / absum * absu\n        v = um / absum * absu\n\n        K = kap * ustar * z / phi(z / mol) / prsc\n        Kx = Ky = Kz = K\n"),
    ("c09_prsc_ignored", "C09", "pbl_model.py", "        K = kap * ustar * z / phi(z / mol) / prsc\n        Kx = Ky = Kz = K\n", "        K = kap * ustar * z / phi(z / mol)\n        Kx = Ky = Kz = K\n"),
    ("c09_phi_15", "C09", "pbl_model.py", "np.power(1.0 - 16.0 * x, -0.5, dtype=complex).real", "np.power(1.0 - 15.0 * x, -0.5, dtype=complex).real"),
    ("c09_log_zm", "C09", "pbl_model.py", "            ustar = absum * kap / (np.log(zm / z0) + psi(zm / mol))", "            ustar = absum * kap / (np.log(zm / z0) - psi(zm / mol))"),
    ("c09_mostm_swap", "C09", "pbl_model.py", "        Kx = K * v**2 / (u**2 + v**2)\n        Ky = K * u**2 / (u**2 + v**2)\n", "        Kx = K * u**2 / (u**2 + v**2)\n        Ky = K * v**2 / (u**2 + v**2)\n"),
    ("c09_overshoot_regression", "C09", "pbl_model.py", "    if zeta.size and zeta[-1] >= np.squeeze(aa).item():\n", "    if False:\n"),
    ("c09_constant_K_uses_z", "C09", "pbl_model.py", "        Km = kap * ustar * zm / prsc\n", "        Km = kap * ustar * zm\n"),
    ("c09_psi_atan", "C09", "pbl_model.py", "        + 2.0 * np.arctan(xi)\n        - 0.5 * np.pi,", "        + 2.0 * np.arctan(xi)\n        - 0.5 * np.pi + 1e-6,"),
]

MUTANTS += [
    # ---- C18
    ("c18_swap_index", "C18", "io.py", '            flx_data[t, ti] = r["flx"]\n', '            flx_data[min(ti, n_time - 1), min(t, n_towers - 1)] = r["flx"]\n'),
    ("c18_conc_from_flx", "C18", "io.py", '            conc_data[t, ti] = r["conc"]\n', '            conc_data[t, ti] = r["flx"]\n'),
    ("c18_towers_sorted", "C18", "io.py", "    tower_names = list(results.keys())\n", "    tower_names = sorted(results.keys())\n"),
    ("c18_timestamps_reversed", "C18", "io.py", "    for r in results[tower_names[0]]:\n        ts = r[\"timestamp\"]\n", "    for r in results[tower_names[-1]][::-1]:\n        ts = r[\"timestamp\"]\n"),
    ("c18_float32_storage", "C18", "io.py", '        "footprint": {"zlib": True, "complevel": 4},\n', '        "footprint": {"zlib": True, "complevel": 4, "dtype": "float32"},\n'),
    ("c18_met_from_last_step", "C18", "io.py", '                mol_data[t] = r["params"]["mol"]\n', '                mol_data[t] = results[tower_name][-1]["params"]["mol"]\n'),
    ("c18_tower_meta_reversed", "C18", "io.py", "    tower_lats = [t.lat for t in config.towers]\n", "    tower_lats = [t.lat for t in config.towers][::-1]\n"),
    ("c18_level_height_first_only", "C18", "io.py", '                level_height[t, ti] = r["grid"][2][:, 0, 0]\n', '                level_height[t, ti] = z\n'),
    ("c18_least_significant_digit", "C18", "io.py", '        "concentration": {"zlib": True, "complevel": 4},\n', '        "concentration": {"zlib": True, "complevel": 4, "least_significant_digit": 12},\n'),
    ("c18_y_from_x", "C18", "io.py", "        y = Y[:, 0] if Y.ndim == 2 else Y\n", "        y = X[:, 0] if Y.ndim == 2 else Y\n"),
]

MUTANTS += [
    # ---- C02
    ("c02_shift_halo_regression", "C02", "solver.py", "shift = np.exp(1j * (Lx * (xm + px * dx) + Ly * (ym + py * dy)))", "shift = np.exp(1j * (Lx * (xm + halo) + Ly * (ym + halo)))"),
    ("c02_shift_sign", "C02", "solver.py", "shift = np.exp(1j * (Lx * (xm + px * dx) + Ly * (ym + py * dy)))", "shift = np.exp(-1j * (Lx * (xm + px * dx) + Ly * (ym + py * dy)))"),
    ("c02_xm_ym_swapped", "C02", "solver.py", "shift = np.exp(1j * (Lx * (xm + px * dx) + Ly * (ym + py * dy)))", "shift = np.exp(1j * (Lx * (ym + px * dx) + Ly * (xm + py * dy)))"),
    ("c02_ifft_in_footprint", "C02", "solver.py", '        p = fft2(fftp, norm="backward").real  # concentration\n        q = fft2(fftq, norm="backward").real  # kinematic flux\n', '        p = ifft2(fftp, norm="forward").real  # concentration\n        q = ifft2(fftq, norm="forward").real  # kinematic flux\n'),
    ("c02_crop_offset", "C02", "solver.py", "    flx = q[:, py : nye - py, px : nxe - px]\n", "    flx = np.roll(q, 1, axis=2)[:, py : nye - py, px : nxe - px]\n"),
    ("c02_ly_with_dx", "C02", "solver.py", "    ly = 2.0 * np.pi / dy / nye * ily\n", "    ly = 2.0 * np.pi / dx / nye * ily\n"),
    ("c02_pad_px_dy", "C02", "solver.py", "shift = np.exp(1j * (Lx * (xm + px * dx) + Ly * (ym + py * dy)))", "shift = np.exp(1j * (Lx * (xm + px * dx) + Ly * (ym + py * dx)))"),
    ("c02_delta_norm", "C02", "solver.py", "tfftq0 = np.ones((nly, nlx), dtype=np.complex128) / nxe / nye", "tfftq0 = np.ones((nly, nlx), dtype=np.complex128) / nx / ny"),
]

MUTANTS += [
    # ---- C03
    ("c03_mean_flux_top_only", "C03", "solver.py", "    tfftq[:, 0, 0] = tfftq0[0, 0]  # conservation by design\n", "    tfftq[0, 0, 0] = tfftq0[0, 0]  # conservation by design\n"),
    ("c03_half_Kz_i_only", "C03", "solver.py", "dz[i] * (0.5 / Kz[i] + 0.5 / Kz[i + 1])", "dz[i] * (0.5 / Kz[i])"),
    ("c03_pad_swapped", "C03", "solver.py", 'q0 = np.pad(q0, ((py, py), (px, px)), mode="constant", constant_values=0.0)', 'q0 = np.pad(q0, ((px, px), (py, py)), mode="constant", constant_values=0.0)'),
    ("c03_delta_norm_unpadded", "C03", "solver.py", "tfftq0 = np.ones((nly, nlx), dtype=np.complex128) / nxe / nye", "tfftq0 = np.ones((nly, nlx), dtype=np.complex128) / nx / ny"),
    ("c03_crop_plus_one", "C02", "solver.py", "    conc = p[:, py : nye - py, px : nxe - px]\n", "    conc = np.roll(p, -1, axis=1)[:, py : nye - py, px : nxe - px]\n"),
    ("c03_trapezoid_dz_prev", "C03", "solver.py", "tfftp00 - tfftq0[0, 0] * dz[i] * (0.5 / Kz[i] + 0.5 / Kz[i + 1])", "tfftp00 - tfftq0[0, 0] * dz[max(i - 1, 0)] * (0.5 / Kz[i] + 0.5 / Kz[i + 1])"),
    ("c03_missing_last_layer", "C03", "solver.py", "        for i in range(nz - 1):\n\n            if i in levels:\n                tfftp[lvl, 0, 0] = tfftp00", "        for i in range(nz - 2):\n\n            if i in levels:\n                tfftp[lvl, 0, 0] = tfftp00"),
    ("c03_analytic_mean_h", "C03", "solver.py", "        tfftp[:, 0, 0] = p000 - tfftq0[0, 0] * Kzinv * h\n", "        tfftp[:, 0, 0] = p000 - tfftq0[0, 0] * Kzinv * z[levels]\n"),
    ("c03_factor_two", "C03", "solver.py", "dz[i] * (0.5 / Kz[i] + 0.5 / Kz[i + 1])", "dz[i] * (1.0 / Kz[i] + 1.0 / Kz[i + 1])"),
    ("c03_halo_px_from_dy", "C03", "solver.py", "    px = int(halo / dx)\n", "    px = int(halo / dy)\n"),
]

MUTANTS += [
    # ---- C04
    ("c04_normalise_by_max", "C04", "solver.py", "    q0 = srf_flx\n", "    q0 = srf_flx / (np.max(np.abs(srf_flx)) or 1.0) if not footprint else srf_flx\n"),
    ("c04_bg_in_flux_mean", "C04", "solver.py", "    tfftq[:, 0, 0] = tfftq0[0, 0]  # conservation by design\n", "    tfftq[:, 0, 0] = tfftq0[0, 0] + 1e-6 * p000  # conservation by design\n"),
    ("c04_source_dependent_branch", "C04", "solver.py", "    if analytic:\n\n        # constant profiles solution", "    if analytic or (not footprint and q0.max() <= 0):\n\n        # constant profiles solution"),
    ("c04_bg_every_mode", "C04", "solver.py", "        tfftp[:, msk] = alpha * tfftpm1 + tfftpm2\n", "        tfftp[:, msk] = alpha * tfftpm1 + tfftpm2 + 1e-3 * p000 / nlx / nly\n"),
    ("c04_footprint_reads_source", "C04", "solver.py", "        tfftq0 = np.ones((nly, nlx), dtype=np.complex128) / nxe / nye\n", "        tfftq0 = np.ones((nly, nlx), dtype=np.complex128) / nxe / nye * (1.0 + 0.0 * q0.flat[0])\n"),
    ("c04_clip_negative_source", "C04", "solver.py", "        fftq0 = fft2(q0, norm=\"forward\")  # fft of source\n", "        fftq0 = fft2(np.where(q0 < -500.0, -500.0, q0), norm=\"forward\")  # fft of source\n"),
]

MUTANTS += [
    # ---- C06
    ("c06_recentre_lx_ly_swapped", "C06", "solver.py", "shift = np.exp(1j * (Lx * (xm - xmx / 2) + Ly * (ym - ymx / 2)))", "shift = np.exp(1j * (Ly * (xm - xmx / 2) + Lx * (ym - ymx / 2)))"),
    ("c06_recentre_sign", "C06", "solver.py", "shift = np.exp(1j * (Lx * (xm - xmx / 2) + Ly * (ym - ymx / 2)))", "shift = np.exp(1j * (Lx * (xm + xmx / 2) + Ly * (ym - ymx / 2)))"),
    ("c06_recentre_ymx", "C06", "solver.py", "shift = np.exp(1j * (Lx * (xm - xmx / 2) + Ly * (ym - ymx / 2)))", "shift = np.exp(1j * (Lx * (xm - ymx / 2) + Ly * (ym - ymx / 2)))"),
    ("c06_lx_with_dy", "C06", "solver.py", "    lx = 2.0 * np.pi / dx / nxe * ilx\n", "    lx = 2.0 * np.pi / dy / nxe * ilx\n"),
    ("c06_recentre_direction", "C06", "solver.py", "shift = np.exp(1j * (Lx * (xm - xmx / 2) + Ly * (ym - ymx / 2)))", "shift = np.exp(-1j * (Lx * (xm - xmx / 2) + Ly * (ym - ymx / 2)))"),
    ("c06_source_pos_dependent", "C06", "solver.py", "        fftq0 = fft2(q0, norm=\"forward\")  # fft of source\n", "        fftq0 = fft2(q0 * (1.0 + 1e-3 * np.arange(nxe)[None, :] / nxe), norm=\"forward\")  # fft of source\n"),
    ("c06_footprint_not_reflected", "C06", "solver.py", '        p = fft2(fftp, norm="backward").real  # concentration\n        q = fft2(fftq, norm="backward").real  # kinematic flux\n', '        p = ifft2(fftp, norm="forward").real  # concentration\n        q = ifft2(fftq, norm="forward").real  # kinematic flux\n'),
    ("c06_recentre_only_x", "C06", "solver.py", "    elif xm**2 + ym**2 > 0.0:\n", "    elif xm > 0.0:\n"),
]

MUTANTS += [
    # ---- C07
    ("c07_kx_for_ky_in_Ti", "C07", "solver.py", "        Ti = -(Kx[i] * Lx**2 + Ky[i] * Ly**2) - 1j * u[i] * Lx - 1j * v[i] * Ly\n", "        Ti = -(Kx[i] * Lx**2 + Kx[i] * Ly**2) - 1j * u[i] * Lx - 1j * v[i] * Ly\n"),
    ("c07_kx_for_ky_in_eigval", "C07", "solver.py", "    KyKzinv = Ky[nz - 1] * Kzinv\n", "    KyKzinv = Kx[nz - 1] * Kzinv\n"),
    ("c07_u_for_v", "C07", "solver.py", "        + 1j * v[nz - 1] * Kzinv * Ly[msk]\n", "        + 1j * u[nz - 1] * Kzinv * Ly[msk]\n"),
    ("c07_dx_for_dy", "C07", "solver.py", "    py = int(halo / dy)\n", "    py = int(halo / dx)\n"),
    ("c07_absolute_length", "C07", "solver.py", "    if halo is None:\n        halo = max(xmx, ymx)\n", "    if halo is None:\n        halo = max(xmx, ymx, 500.0)\n"),
    ("c07_abs_wind_x", "C07", "solver.py", "        Ti = -(Kx[i] * Lx**2 + Ky[i] * Ly**2) - 1j * u[i] * Lx - 1j * v[i] * Ly\n", "        Ti = -(Kx[i] * Lx**2 + Ky[i] * Ly**2) - 1j * np.abs(u[i]) * Lx - 1j * v[i] * Ly\n"),
    ("c07_stray_velocity", "C07", "solver.py", "        Ti = -(Kx[i] * Lx**2 + Ky[i] * Ly**2) - 1j * u[i] * Lx - 1j * v[i] * Ly\n", "        Ti = -(Kx[i] * Lx**2 + Ky[i] * Ly**2) - 1j * (u[i] + 1e-3) * Lx - 1j * v[i] * Ly\n"),
    ("c07_stray_diffusivity", "C07", "solver.py", "        Kzinv = 1.0 / Kz[i]\n        dzi = dz[i]\n", "        Kzinv = 1.0 / (Kz[i] + 1e-4)\n        dzi = dz[i]\n"),
]

MUTANTS += [
    # ---- C10
    ("c10_rank_regression", "C10", "solver.py", "        tfftp = tfftp[rank]\n        tfftq = tfftq[rank]\n", "        pass\n"),
    ("c10_analytic_broadcast_regression", "C10", "solver.py", "np.exp(-eigval * h[:, np.newaxis])", "np.exp(-eigval * h)"),
    ("c10_Z_sorted", "C10", "solver.py", '    Z, Y, X = np.meshgrid(z[levels], y, x, indexing="ij")\n', '    Z, Y, X = np.meshgrid(np.sort(z[levels]), y, x, indexing="ij")\n'),
    ("c10_top_test_nz2", "C10", "solver.py", "    if nz - 1 in levels:\n        fftp[lvl, ...] = fftpi\n        fftq[lvl, ...] = fftqi\n", "    if nz - 2 in levels and nz - 1 in levels:\n        fftp[lvl, ...] = fftpi\n        fftq[lvl, ...] = fftqi\n"),
    ("c10_mean_mode_offset", "C10", "solver.py", "            if i in levels:\n                tfftp[lvl, 0, 0] = tfftp00\n                lvl += 1\n", "            if i in levels:\n                lvl += 1\n                tfftp[min(lvl, nlvls) - 1, 0, 0] = tfftp00 if lvl < 2 else tfftp[0, 0, 0]\n"),
    ("c10_rank_only_flux", "C10", "solver.py", "        tfftp = tfftp[rank]\n        tfftq = tfftq[rank]\n", "        tfftq = tfftq[rank]\n"),
    ("c10_analytic_mean_sorted", "C10", "solver.py", "        tfftp[:, 0, 0] = p000 - tfftq0[0, 0] * Kzinv * h\n", "        tfftp[:, 0, 0] = p000 - tfftq0[0, 0] * Kzinv * np.sort(h)\n"),
    ("c10_store_after_step", "C10", "solver.py", "        if i in levels:\n            fftp[lvl, ...] = fftpi\n            fftq[lvl, ...] = fftqi\n            lvl += 1\n\n        Ti =", "        if i in levels and i > 0:\n            fftp[lvl, ...] = fftpi\n            fftq[lvl, ...] = fftqi\n            lvl += 1\n\n        Ti ="),
]

MUTANTS += [
    # ---- C11
    ("c11_parity_regression", "C11", "solver.py", "    if (nxe - nlx) % 2 or (nye - nly) % 2:\n", "    if False:\n"),
    ("c11_dlx_plus_one", "C11", "solver.py", "    dlx, dly = (nxe - nlx) // 2, (nye - nly) // 2\n", "    dlx, dly = (nxe - nlx) // 2, (nxe - nly) // 2\n"),
    ("c11_crop_unpadded", "C11", "solver.py", "    flx = q[:, py : nye - py, px : nxe - px]\n", "    flx = q[:, 0:ny, 0:nx]\n"),
    ("c11_linspace_endpoint", "C11", "solver.py", "    x = np.linspace(0, xmx, nx, endpoint=False)\n", "    x = np.linspace(0, xmx, nx, endpoint=True)\n"),
    ("c11_clamp_to_unpadded", "C11", "solver.py", "    if (nlx > nxe) or (nly > nye):\n", "    if (nlx > nx) or (nly > ny):\n"),
    ("c11_clamp_sets_unpadded", "C11", "solver.py", "        nlx, nly = nxe, nye\n", "        nlx, nly = nxe - 2 * (px > 0), nye\n"),
    ("c11_lowpass_damped", "C11", "solver.py", "        tfftq0 = fftq0[dly : nye - dly, dlx : nxe - dlx]\n", "        tfftq0 = fftq0[dly : nye - dly, dlx : nxe - dlx] * (1.0 - 1e-6 * dlx)\n"),
    ("c11_y_from_xmx", "C11", "solver.py", "    y = np.linspace(0, ymx, ny, endpoint=False)\n", "    y = np.linspace(0, xmx, ny, endpoint=False)\n"),
]

MUTANTS += [
    # ---- C05
    ("c05_sign_regression", "C05", "solver.py", "b = -Kzinv * dzi + 1.0 / 6.0 * Kzinv**2 * Ti * dzi**3", "b = -Kzinv * dzi - 1.0 / 6.0 * Kzinv**2 * Ti * dzi**3"),
    ("c05_c_half", "C05", "solver.py", "c = Ti * dzi - 1.0 / 6.0 * Kzinv * Ti**2 * dzi**3", "c = Ti * dzi - 1.0 / 2.0 * Kzinv * Ti**2 * dzi**3"),
    ("c05_drop_cubic", "C05", "solver.py", "c = Ti * dzi - 1.0 / 6.0 * Kzinv * Ti**2 * dzi**3", "c = Ti * dzi"),
    ("c05_exp_plus", "C05", "solver.py", "np.exp(-eigval * h[:, np.newaxis])", "np.exp(eigval * h[:, np.newaxis])"),
    ("c05_Kzinv_eigval2", "C05", "solver.py", "        tfftp[:, msk] = tfftq[:, msk] * Kzinv / eigval\n", "        tfftp[:, msk] = tfftq[:, msk] * Kzinv / eigval**2\n"),
    ("c05_a_quarter", "C05", "solver.py", "        a = 1.0 - 0.5 * Kzinv * Ti * dzi**2\n", "        a = 1.0 - 0.25 * Kzinv * Ti * dzi**2\n"),
    ("c05_analytic_mean_sign", "C05", "solver.py", "        tfftp[:, 0, 0] = p000 - tfftq0[0, 0] * Kzinv * h\n", "        tfftp[:, 0, 0] = p000 + tfftq0[0, 0] * Kzinv * h\n"),
    ("c05_analytic_uses_Kx", "C05", "solver.py", "        tfftp[:, msk] = tfftq[:, msk] * Kzinv / eigval\n", "        tfftp[:, msk] = tfftq[:, msk] / Kx[nz - 1] / eigval\n"),
    ("c05_analytic_no_shift", "C05", "solver.py", "    # shift green function in Fourier space to measurement point\n    if footprint:\n", "    # shift green function in Fourier space to measurement point\n    if footprint and not analytic:\n"),
]

MUTANTS += [
    # ---- C01
    ("c01_top_bc_from_bottom", "C01", "solver.py", "    Kzinv = 1.0 / Kz[nz - 1]\n    KxKzinv = Kx[nz - 1] * Kzinv\n    KyKzinv = Ky[nz - 1] * Kzinv\n", "    Kzinv = 1.0 / Kz[0]\n    KxKzinv = Kx[0] * Kzinv\n    KyKzinv = Ky[0] * Kzinv\n"),
    ("c01_v_dropped", "C01", "solver.py", "        Ti = -(Kx[i] * Lx**2 + Ky[i] * Ly**2) - 1j * u[i] * Lx - 1j * v[i] * Ly\n", "        Ti = -(Kx[i] * Lx**2 + Ky[i] * Ly**2) - 1j * u[i] * Lx\n"),
    ("c01_ky_is_kx_eig", "C01", "solver.py", "    KyKzinv = Ky[nz - 1] * Kzinv\n", "    KyKzinv = Kx[nz - 1] * Kzinv\n"),
    ("c01_dz0_everywhere", "C01", "solver.py", "        dzi = dz[i]\n", "        dzi = dz[0]\n"),
    ("c01_advection_sign", "C01", "solver.py", "        Ti = -(Kx[i] * Lx**2 + Ky[i] * Ly**2) - 1j * u[i] * Lx - 1j * v[i] * Ly\n", "        Ti = -(Kx[i] * Lx**2 + Ky[i] * Ly**2) + 1j * u[i] * Lx + 1j * v[i] * Ly\n"),
    # c01_alpha_top_Kz (Kz[nz-2] in the top condition) is first-order consistent: it converges, and correctly passes
    ("c01_Kz_mid_skipped", "C01", "solver.py", "        Kzinv = 1.0 / Kz[i]\n        dzi = dz[i]\n", "        Kzinv = 1.0 / Kz[min(i, nz // 2)]\n        dzi = dz[i]\n"),
    ("c01_top_wind_zero", "C01", "solver.py", "        + 1j * u[nz - 1] * Kzinv * Lx[msk]\n", "        + 1j * u[0] * Kzinv * Lx[msk]\n"),
    ("c01_top_bc_dirichlet", "C01", "solver.py", "        alpha = -(tfftq2 - Kz[nz - 1] * eigval * tfftp2) / (\n            tfftq1 - Kz[nz - 1] * eigval * tfftp1\n        )", "        alpha = -(tfftp2) / (\n            tfftp1\n        )"),
]

MUTANTS += [
    # ---- C13
    ("c13_met_index_ignored", "C13", "interface.py", "    met_step = config.met.get_step(met_index)\n", "    met_step = config.met.get_step(0)\n"),
    ("c13_tower0_height", "C13", "interface.py", "            meas_height=tower.z_m,\n            wind=(u_wind, v_wind),\n            z0=z0_val,", "            meas_height=config.towers[0].z_m,\n            wind=(u_wind, v_wind),\n            z0=z0_val,"),
    ("c13_domain_swapped", "C13", "interface.py", "        domain=(dom.xmax, dom.ymax),\n        levels=levels,", "        domain=(dom.ymax, dom.xmax),\n        levels=levels,"),
    ("c13_halo_dropped", "C13", "interface.py", "        halo=dom.halo,\n", ""),
    ("c13_precision_dropped", "C13", "interface.py", "        precision=sol.precision,\n", ""),
    ("c13_ustar_preferred", "C13", "interface.py", "    z0_val = met_step.get(\"z0\")\n    if z0_val is not None:\n", "    z0_val = met_step.get(\"z0\")\n    if z0_val is not None and met_step.get(\"ustar\") is None:\n"),
    ("c13_levels_nz_minus_1", "C13", "interface.py", "        levels = dom.nz\n", "        levels = dom.nz - 1\n"),
    ("c13_meas_pt_swapped", "C13", "interface.py", "        meas_pt=(tower.x, tower.y),\n", "        meas_pt=(tower.y, tower.x),\n"),
    ("c13_src_loc_dropped", "C13", "interface.py", "            src_loc=sol.src_loc,\n", ""),
    ("c13_timestamp_index", "C13", "interface.py", "        \"timestamp\": met_step[\"timestamp\"],\n", "        \"timestamp\": met_index,\n"),
    ("c13_yaml_modes_list", "C13", "config_parser.py", "        modes=tuple(modes),\n", "        modes=tuple(sorted(modes)),\n"),
    ("c13_full_output_off_by_one", "C13", "interface.py", "        levels = list(range(dom.nz + 1))\n", "        levels = list(range(dom.nz))\n"),
]

MUTANTS += [
    # ---- C08
    ("c08_sin_cos", "C08", "utils.py", "    u = -u_rot * np.sin(wind_dir)\n    v = -u_rot * np.cos(wind_dir)\n", "    u = -u_rot * np.cos(wind_dir)\n    v = -u_rot * np.sin(wind_dir)\n"),
    ("c08_u_sign", "C08", "utils.py", "    u = -u_rot * np.sin(wind_dir)\n", "    u = u_rot * np.sin(wind_dir)\n"),
    ("c08_latlon_axes", "C08", "config_parser.py", "    return x, y\n\n\n# --- Dataclasses ---", "    return y, x\n\n\n# --- Dataclasses ---"),
    ("c08_meas_pt_swapped", "C08", "interface.py", "        meas_pt=(tower.x, tower.y),\n", "        meas_pt=(tower.y, tower.x),\n"),
    ("c08_radians", "C08", "utils.py", "    wind_dir = np.deg2rad(wind_dir)\n", "    wind_dir = np.asarray(wind_dir, dtype=float)\n"),
    ("c08_blowing_to", "C08", "utils.py", "    u = -u_rot * np.sin(wind_dir)\n    v = -u_rot * np.cos(wind_dir)\n", "    u = u_rot * np.sin(wind_dir)\n    v = u_rot * np.cos(wind_dir)\n"),
    ("c08_interface_swaps_uv", "C08", "interface.py", "    u_wind, v_wind = compute_wind_fields(met_step[\"wind_speed\"], met_step[\"wind_dir\"])\n", "    v_wind, u_wind = compute_wind_fields(met_step[\"wind_speed\"], met_step[\"wind_dir\"])\n"),
    ("c08_footprint_not_reflected", "C08", "solver.py", '        p = fft2(fftp, norm="backward").real  # concentration\n        q = fft2(fftq, norm="backward").real  # kinematic flux\n', '        p = ifft2(fftp, norm="forward").real  # concentration\n        q = ifft2(fftq, norm="forward").real  # kinematic flux\n'),
    ("c08_offset_10deg", "C08", "utils.py", "    wind_dir = np.deg2rad(wind_dir)\n", "    wind_dir = np.deg2rad(wind_dir + 10.0)\n"),
]

MUTANTS += [
    # ---- C15
    ("c15_key_drops_meas_pt", "C15", "cache.py", "        h.update(np.asarray(meas_pt).tobytes())\n", ""),
    ("c15_key_halo_constant", "C15", "cache.py", "        h.update(str(halo).encode())\n", "        h.update(b'halo')\n"),
    ("c15_hit_swaps_fields", "C15", "cache.py", '                        data["conc"],\n                        data["flx"],\n', '                        data["flx"],\n                        data["conc"],\n'),
    ("c15_extra_dropped", "C15", "cache.py", "        if extra is not None:\n", "        if False:\n"),
    # c15_nonatomic_regression (plain np.savez onto the final name, unreadable => miss kept) preserves the property as stated:
    # every partial archive lacks its central directory and is a miss; correctly passes C15 (it is a C14 stressor only without the miss rule)
    ("c15_unreadable_fatal_regression", "C15", "cache.py", "            except Exception as e:\n                # truncated or corrupt entry (e.g. interrupted run): a miss\n", "            except KeyError as e:\n                # truncated or corrupt entry (e.g. interrupted run): a miss\n"),
    ("c15_lookup_before_halo_default", "C15", "solver.py", "            z, profiles, domain, modes, meas_pt, halo, precision, extra=cache_extra\n        )\n        if cached is not None:", "            z, profiles, domain, modes, meas_pt, None if halo == max(xmx, ymx) else halo, precision, extra=cache_extra\n        )\n        if cached is not None:"),
    ("c15_levels_sorted_in_key", "C15", "solver.py", "            np.asarray(levels).tolist(),\n", "            sorted(np.asarray(levels).tolist()),\n"),
    ("c15_never_hits", "C15", "cache.py", "        if path.exists():\n            try:", "        if path.exists() and False:\n            try:"),
    ("c15_cache_dispersion_too", "C15", "solver.py", "    if cache is not None and footprint:\n        cache_extra = (", "    if cache is not None:\n        cache_extra = ("),
    ("c15_precision_not_keyed", "C15", "cache.py", "        h.update(precision.encode())\n", ""),
    ("c15_profiles_first_only", "C15", "cache.py", "        for arr in profiles:\n            h.update(np.asarray(arr).tobytes())\n", "        for arr in profiles[:1]:\n            h.update(np.asarray(arr).tobytes())\n"),
]

MUTANTS += [
    # ---- C14
    ("c14_as_completed", "C14", "interface.py", "        with ProcessPoolExecutor(max_workers=max_workers) as pool:\n            flat_results = list(pool.map(_worker_single, tasks))\n", "        from concurrent.futures import as_completed\n        with ProcessPoolExecutor(max_workers=max_workers) as pool:\n            flat_results = [f.result() for f in as_completed([pool.submit(_worker_single, t) for t in tasks])]\n"),
    ("c14_idx_stride", "C14", "interface.py", "            idx += n_time\n", "            idx += max(n_time - 1, 1)\n"),
    ("c14_keyed_by_last_tower", "C14", "interface.py", "            results[tower.name] = step_results\n", "            results[config.towers[-1].name if len(results) == 0 and len(config.towers) > 2 else tower.name] = step_results\n"),
    ("c14_timeseries_step0", "C14", "interface.py", "            config, tower, met_index=i, surface_flux=surface_flux, cache=cache\n", "            config, tower, met_index=i if cache is None else 0, surface_flux=surface_flux, cache=cache\n"),
    ("c14_towers_unordered", "C14", "interface.py", "        results = {name: res for name, res in futures}\n", "        results = {name: res for name, res in sorted(futures, key=lambda x: x[0])}\n"),
    ("c14_time_strategy_reversed", "C14", "interface.py", "                step_results = list(pool.map(_worker_single, tasks))\n            results[tower.name] = step_results\n", "                step_results = list(pool.map(_worker_single, tasks[::-1]))\n            results[tower.name] = step_results\n"),
    ("c14_worker_uses_first_tower", "C14", "interface.py", "    return tower.name, run_bldfm_timeseries(config, tower)\n", "    return tower.name, run_bldfm_timeseries(config, config.towers[0] if tower.z_m == config.towers[0].z_m else tower)\n"),
    ("c14_multitower_shares_list", "C14", "interface.py", "        results[tower.name] = run_bldfm_timeseries(\n            config, tower, surface_flux=surface_flux\n        )\n", "        results[tower.name] = run_bldfm_timeseries(\n            config, tower if len(results) < 2 else config.towers[1], surface_flux=surface_flux\n        )\n"),
    ("c14_cache_shared_across_towers", "C14", "cache.py", "        h.update(np.asarray(meas_pt).tobytes())\n", "        h.update(np.asarray(np.round(meas_pt, -3)).tobytes())\n"),
]

MUTANTS += [
    # ---- C12
    ("c12_memo_eigval_by_shape", "C12", "solver.py", "    # initialization of output arrays\n", "    eigval = steady_state_transport_solver.__dict__.setdefault(('eig', nlx, nly, len(z)), eigval)\n    # initialization of output arrays\n"),
    ("c12_precision_sticky", "C12", "solver.py", "    if precision == \"single\":\n\n        tfftp = np.zeros", "    if steady_state_transport_solver.__dict__.setdefault('prec', precision) == \"single\":\n\n        tfftp = np.zeros"),
    ("c12_poisoned_wisdom_fatal", "C12", "fft_manager.py", "        except Exception as e:\n            logger.warning(f\"Failed to load wisdom: {e}\")\n", "        except pickle.UnpicklingError as e:\n            logger.warning(f\"Failed to load wisdom: {e}\")\n"),
    ("c12_single_sloppy", "C12", "solver.py", "    conc = p[:, py : nye - py, px : nxe - px]\n", "    if precision == 'single':\n        p = p.astype(np.float16).astype(np.float64)\n    conc = p[:, py : nye - py, px : nxe - px]\n"),
    ("c12_thread_dependent_result", "C12", "solver.py", "            set_num_threads(config.NUM_THREADS)\n", "            set_num_threads(config.NUM_THREADS)\n            eigval = eigval * (1.0 + 1e-9)\n"),
    ("c12_state_leak_levels", "C12", "solver.py", "    nlvls = len(levels)\n\n    # halo to deal", "    nlvls = len(levels)\n    levels = steady_state_transport_solver.__dict__.setdefault(('lv', nlvls, len(z)), levels)\n\n    # halo to deal"),
    # c12_manager_threads_scale dropped: the module-level fft2/ifft2 always re-create a 1-thread manager, so the FFT thread count never varies
]

MUTANTS += [
    # ---- state keyed too coarsely (sibling calls in one process differ in one argument)
    ("c09_grid_memo_without_z0", "C09", "pbl_model.py",
     "    zeta = np.arange(0.0, np.squeeze(zetamx).item() + dzeta, dzeta)\n",
     "    _k = (n, float(zm), float(np.squeeze(h)), float(np.squeeze(zmx)))\n    _memo = globals().setdefault('_ZETA', {})\n    if _k not in _memo:\n        _memo[_k] = np.arange(0.0, np.squeeze(zetamx).item() + dzeta, dzeta)\n    zeta = _memo[_k].copy()\n"),
    ("c09_psi_zm_memo_without_mol", "C09", "pbl_model.py",
     "            ustar = absum * kap / (np.log(zm / z0) + psi(zm / mol))\n",
     "            _memo = globals().setdefault('_PSIZM', {})\n            if float(zm) not in _memo:\n                _memo[float(zm)] = psi(zm / mol)\n            ustar = absum * kap / (np.log(zm / z0) + _memo[float(zm)])\n"),
    ("c12_wavenumber_memo_without_dx", "C12", "solver.py",
     "    Lx, Ly = np.meshgrid(lx, ly)\n",
     "    _memo = globals().setdefault('_LXLY', {})\n    if (nlx, nly, nxe, nye) not in _memo:\n        _memo[(nlx, nly, nxe, nye)] = np.meshgrid(lx, ly)\n    Lx, Ly = _memo[(nlx, nly, nxe, nye)]\n"),
]

MUTANTS += [
    # ---- the two kernel variants share one on-disk cache entry again (regression of 18e72a9): visible only in the
    #      multi-thread-first kernel world / with an empty kernel cache
    ("c14_kernel_variants_share_cache_entry", "C14", "utils.py",
     '            variant.__qualname__ = func.__qualname__ + (\n                "_parallel" if use_parallel else "_serial"\n            )\n',
     '            variant.__qualname__ = func.__qualname__\n'),
    ("c14_worker_sets_numba_env_after_fork", "C14", "interface.py",
     '    config, tower, met_index = args\n    # Reset inherited state from parent process to avoid fork-safety issues\n',
     '    config, tower, met_index = args\n    # Reset inherited state from parent process to avoid fork-safety issues\n    os.environ["NUMBA_NUM_THREADS"] = "1"\n'),
]

MUTANTS += [
    ("c08_unsigned_speed_negated_first", "C08", "utils.py", "    u = -(u_rot * np.sin(wind_dir))\n", "    u = -u_rot * np.sin(wind_dir)\n"),
]

MUTANTS += [
    ("c02_float32_point_regression", "C02", "solver.py", "    xm, ym = (float(c) for c in meas_pt)\n", "    xm, ym = meas_pt\n"),
    ("c20_integer_base_regression", "C20", "utils.py", "    g_rescaled = np.empty_like(g_flat, dtype=M_shifted.dtype)\n", "    g_rescaled = np.empty_like(g_flat)\n"),
]

MUTANTS += [
    # ---- the environment of the call (DEBUG verbosity, escalated warnings): nothing a call returns may depend on it
    ("c04_debug_summary_sorts_source", "C04", "solver.py", "    q0 = np.ascontiguousarray(srf_flx)\n",
     "    q0 = np.ascontiguousarray(srf_flx)\n    if logger.isEnabledFor(10):\n        q0 = np.sort(q0, axis=None).reshape(q0.shape)\n"),
    ("c09_discarded_branch_raises_invalid", "C09", "pbl_model.py", "    z = -h * np.log(-(zeta - aa) / bb)\n",
     "    _unused = np.sqrt(np.asarray(-1.0 * float(meas_height)))\n    z = -h * np.log(-(zeta - aa) / bb)\n"),
]

MUTANTS += [
    ("c12_native_float64_regression", "C12", "solver.py",
     "    z = np.ascontiguousarray(z, dtype=float)\n    profiles = tuple(np.ascontiguousarray(prof, dtype=float) for prof in profiles)\n", ""),
]

MUTANTS += [
    # ---- a NaN in one cell (comparisons of the form "error > tolerance" are blind to NaN: the finiteness monitor of the call path sees it)
    ("c06_nan_in_one_cell_when_three_levels", "C06", "solver.py", "    result = (grid, np.squeeze(conc), np.squeeze(flx))\n",
     "    if nlvls == 3:\n        conc[-1, 0, 0] = np.nan\n    result = (grid, np.squeeze(conc), np.squeeze(flx))\n"),
    ("c04_nan_flux_for_tiny_sources", "C04", "solver.py", "    result = (grid, np.squeeze(conc), np.squeeze(flx))\n",
     "    if (not footprint) and 0 < np.max(np.abs(q0)) < 1e-9:\n        flx = flx / 0.0 * 0.0\n    result = (grid, np.squeeze(conc), np.squeeze(flx))\n"),
]
