#!/venv/bin/python
"""Regenerates /verif/MANIFEST.json from the table below and validates it."""

import json
import sys
from pathlib import Path

VERIF = Path(__file__).resolve().parent.parent

# id -> (category, technique, level text, level note, design ref)
CHECKS = {
    "C01": (
        "exploration",
        "reference-model monitor: per-mode transfer functions observed on the real solver (unit impulse, halo=0) against an independent Riccati/DOP853 integration of the boundary-value problem; error law E<=2*delta at every refinement and E(4n)<=max(E(n)/2.5, 0.1*delta)",
        "Seeded random closed-form profile families x uniform/geometric/exp-mapped grids x n0 in {8,16,32} refined x4 (x16 on a subset in the thorough tier) x 6-12 cell grids, plus the arrays vertical_profiles(MOST/MOSTM/OAAHOC) produces on its own grid with the continuous counterpart rebuilt from z[0], plus a halo clause (impulse problem under an incommensurate halo vs the explicitly padded problem): 240 quick / 8000 thorough cases (a third with the cell size tuned so that the compared components reach shooting growth 13-18, an eighth on regional domains), ~50 resolved modes x 3 heights each; oracle self-tested per worker on constant coefficients. An error law with calibrated, frozen constants - not an asymptotic proof. Families include wind direction turning with height. All solver calls go through the monitored call path (argument-purity guard, value-preserving re-spelling of containers / memory layout chosen per case, decoy solves before 30 % of the cases, 20 % of the cases on the multi-thread kernel, finiteness of every returned field) and the shards alternate between the two kernel worlds.",
        "Trusted: SciPy DOP853 at rtol 1e-11; the calibrated constants C=2, 2.5, 0.1 (observed worst 0.69 and ratio 3.7 on the repaired tree).",
        "DESIGN.md section 4, C01",
    ),
    "C02": (
        "exploration",
        "relation monitor: every footprint call is paired with the forward dispersion run of the same inputs; sum(q0*F) vs forward flux at the tower cell, sum(q0*G) vs forward concentration above background",
        "Seeded random set-ups stratified over the six halo classes (zero, default, sub-cell, commensurate, one-axis, incommensurate) x full/truncated/over-requested modes x even/odd grids x closures, synthetic anisotropic and constant profiles x sources x on-grid points x single/multi level x both precisions (192 quick / 48000 thorough set-ups, ~14 comparisons each); a run without an incommensurate-halo case is inconclusive. The weighted sum is also taken with utils.point_measurement on Fortran-ordered / transposed / strided copies of the source. All solver calls go through the monitored call path (argument-purity guard, value-preserving re-spelling of containers / memory layout chosen per case, decoy solves before 30 % of the cases, 20 % of the cases on the multi-thread kernel, finiteness of every returned field) and the shards alternate between the two kernel worlds.",
        "Trusted: numpy summation; conditioning guard G<=18 and tolerance max(1e-9, 5000 eps e^G) calibrated on 3200 set-ups.",
        "DESIGN.md section 4, C02",
    ),
    "C03": (
        "exploration",
        "relation + reference-model monitor: conservation of the horizontal mean flux, resistance oracles (exact for constant Kz, nodal Riemann bracket, refinement against scipy quadrature), unit footprint sum, and halo == explicit pad / halo=0 / crop on the real solver",
        "Seeded random set-ups: 160+160+20 quick / 28800+28800+3600 thorough cases for (conservation, halo equivalence per halo class in dispersion, re-centred dispersion and footprint mode, resistance refinement); identities at 1e-11 (double) / 2e-6 (single), halo equivalence with the conditioning-aware tolerance. A third of the constant-profile cases use integer-valued heights with dtype int64 and a quarter an integer-typed background. All solver calls go through the monitored call path (argument-purity guard, value-preserving re-spelling of containers / memory layout chosen per case, decoy solves before 30 % of the cases, 20 % of the cases on the multi-thread kernel, finiteness of every returned field) and the shards alternate between the two kernel worlds.",
        "Trusted: the nodal-bracket argument (any rule using a layer's own nodal values lies between the Riemann sums); scipy.integrate.quad.",
        "DESIGN.md section 4, C03",
    ),
    "C04": (
        "exploration",
        "relation monitor: superposition over three recorded calls, flux independence of the background, uniform background offset, bitwise independence of footprint mode from source values (zeros, 1e300, inf/nan, integers)",
        "Seeded random set-ups x source pairs x coefficients over six decades x backgrounds x levels x halos x modes x numeric/analytic x both precisions, sources incl. pure sinks: 192 quick / 48000 thorough cases, 11 solver calls each. A third of the cases pass the background as Python int / numpy integer. All solver calls go through the monitored call path (argument-purity guard, value-preserving re-spelling of containers / memory layout chosen per case, decoy solves before 30 % of the cases, 20 % of the cases on the multi-thread kernel, finiteness of every returned field) and the shards alternate between the two kernel worlds.",
        "Trusted: conditioning-aware tolerance relative to |a| max|S1| + |b| max|S2|.",
        "DESIGN.md section 4, C04",
    ),
    "C05": (
        "exploration",
        "reference-model monitor (closed-form half-space solution in Fourier space) for analytic mode + error-law monitor (L2 numeric-analytic error at n, 2n, 4n, 8n layers, gain from 2n to 8n >= 36) with halo, truncation, tower shift and crop switched on",
        "Seeded random constant anisotropic profiles: 160 quick / 36000 thorough closed-form cases (every retained wavenumber strictly inside the cut-off) and 352 / 79200 four-level refinements on uniform, geometric and weakly stretched grids, one in eleven on a deep column (about 45 % qualify as resolved and above the rounding floor). The gain threshold 36 was calibrated on both trees: >= 57.5 on 1803 cases of the repaired tree, <= 23.3 on 894 cases of the pinned (second-order) tree. One refinement case in six is a deep column (fastest retained component decays by e^-40..e^-70 over the column) observed in its lowest eighth. All solver calls go through the monitored call path (argument-purity guard, value-preserving re-spelling of containers / memory layout chosen per case, decoy solves before 30 % of the cases, 20 % of the cases on the multi-thread kernel, finiteness of every returned field) and the shards alternate between the two kernel worlds.",
        "Trusted: the closed form written in vlib/oracles.py; threshold 36 is a calibrated constant.",
        "DESIGN.md section 4, C05",
    ),
    "C06": (
        "exploration",
        "relation monitor: source translation, tower translation, point reflection against the unit-source response (periodic grid, and on the overlap under every halo class), and re-centring (full relation on the periodic grid, overlap + centre value under a halo) over groups of recorded calls",
        "Seeded random set-ups with dx != dy, even and odd sizes, shifts incl. 0, +-1, n-1, wrap-around: 192 quick / 48000 thorough cases x 6 relations; phase-only relations at 1e-11, relations through the vertical solve with the conditioning-aware tolerance. All solver calls go through the monitored call path (argument-purity guard, value-preserving re-spelling of containers / memory layout chosen per case, decoy solves before 30 % of the cases, 20 % of the cases on the multi-thread kernel, finiteness of every returned field) and the shards alternate between the two kernel worlds.",
        "Trusted: numpy roll/indexing as the statement of the relation.",
        "DESIGN.md section 4, C06",
    ),
    "C07": (
        "exploration",
        "relation monitor: mirror in x / y (Fourier comparison off the Nyquist and cut-off wavenumbers on halo=0; exact plain flip on odd grids under every halo class), transpose, length-scale and velocity-scale similarity over pairs of recorded calls",
        "Seeded random set-ups with Kx != Ky != Kz, oblique winds, non-square grids, all halo classes for transpose/scalings, scale factors over six decades: 192 quick / 48000 thorough cases x 10 solver calls. All solver calls go through the monitored call path (argument-purity guard, value-preserving re-spelling of containers / memory layout chosen per case, decoy solves before 30 % of the cases, 20 % of the cases on the multi-thread kernel, finiteness of every returned field) and the shards alternate between the two kernel worlds.",
        "Trusted: non-power-of-two length scales only where int(halo/dx) is not on a knife edge.",
        "DESIGN.md section 4, C07",
    ),
    "C10": (
        "exploration",
        "relation monitor: every multi-level call is paired with the single-level calls and the full-column call of the same inputs; returned heights compared exactly",
        "Seeded random set-ups x eight selection kinds (scalar, single, ascending, descending, shuffled, top-first, full, full reversed) x list/ndarray/numpy-integer forms x footprint/dispersion x numeric/analytic x both precisions x nz up to 64: 240 quick / 43200 thorough selections, ~22 slice comparisons each (all bitwise equal on the repaired tree). Level arrays come in signed and unsigned integer dtypes. All solver calls go through the monitored call path (argument-purity guard, value-preserving re-spelling of containers / memory layout chosen per case, decoy solves before 30 % of the cases, 20 % of the cases on the multi-thread kernel, finiteness of every returned field) and the shards alternate between the two kernel worlds.",
        "Trusted: none beyond the solver itself (self-consistency relation); duplicated indices and tuples not generated.",
        "DESIGN.md section 4, C10",
    ),
    "C11": (
        "exploration",
        "relation monitor over an exhaustive small range: shape/coordinates, low-pass relation in Fourier space, registration against explicit pad / halo=0 / crop, over-request equivalence, exact surface-level identity (flux at z0 == source / unit pulse) when every mode is retained; ValueError/IndexError counted as accepted outcomes",
        "quick: a 3240-tuple Latin subsample of nx, ny in 4..9 x even modes 2..12 per axis x five halos x two modes; thorough: all 40 960 tuples of the wider range nx, ny in 4..11, modes 2..16 (exhaustive over that range). Plus a coordinate clause over 1024 quick / 65536 thorough random (extent, cell count) pairs. All solver calls go through the monitored call path (argument-purity guard, value-preserving re-spelling of containers / memory layout chosen per case, decoy solves before 30 % of the cases, 20 % of the cases on the multi-thread kernel, finiteness of every returned field) and the shards alternate between the two kernel worlds.",
        "Trusted: numpy FFT for the spectral comparison; one fixed well-conditioned anisotropic column.",
        "DESIGN.md section 4, C11",
    ),
    "C08": (
        "exploration",
        "reference-model monitor: wind decomposition against math.sin/cos; end to end, bearing of the footprint's peak region (f >= 0.25 max inside the largest tower-centred disc) observed through parse_config_dict -> run_bldfm_single with a lat/lon tower, against the configured wind direction (5 degrees)",
        "48-direction lattice (x3 quick, x40 thorough) plus random directions, float- and integer-typed met values, every third case also as a direction sweep through run_bldfm_timeseries, speeds, stabilities, four closures, ustar/z0 forcing, square and oblong grids, default and explicit halo, both precisions; preconditions (dx, dy <= z_m, no truncation, G<=18, peak region >= 12 cells inside the disc) are counted when they skip a draw. Observed worst bearing error 1.7 degrees. Every other end-to-end case first runs the same configuration as a concentration field in the same process; the unit clause runs behind the argument-purity guard.",
        "Trusted: the 5 degree threshold is a calibrated constant (margin 3x); the plain centroid is deliberately not used (periodic wrap-around bias).",
        "DESIGN.md section 4, C08",
    ),
    "C12": (
        "exploration",
        "history monitor: random call histories over {solve of 57 requests: 29 fixed ones (among them 100x100 and 144x100 grids, Fortran-ordered / transposed / strided sources, ndarray spellings) incl. footprint/dispersion twins on identical geometry, a same-shape different-physics pair and integer / list spellings of the same values, a base request with 21 variants that each differ from it in exactly one argument, and six single-precision twins of variants of the solver signature (same cell / pad / mode counts where the argument allows), NUM_THREADS in 1..8, FFT-manager reset / re-creation, poisoned / foreign / missing wisdom file, allocation noise}; every solve compared bitwise with earlier results of the same (request, thread setting), against a second table of six requests solved in a fresh process with another environment (library thread variables set, three solver threads, the other kernel world), and against a table produced by solving each request alone in a fresh subprocess",
        "32 quick / 960 thorough histories of 60 operations on concurrently running workers; distinct process-state tuples and (state -> request) transitions are counted and reported; single vs double compared at the property's 1e-5. Each history also contains bursts (one request five times in a row with allocation noise in between); thread counts 1..8; whether a solve with NUM_THREADS > 1 really ran a threaded kernel is observed through numba.threading_layer() (none observed => inconclusive); shards alternate between the two kernel worlds.",
        "Trusted: the fresh-process table is one execution per request per run; schedules are those that occur on this 16-core sandbox under load.",
        "DESIGN.md section 4, C12",
    ),
    "C13": (
        "exploration",
        "reference-model monitor: hand re-assembly of the documented low-level pipeline next to every run_bldfm_single call (bitwise), recording spies on the four callables bldfm.interface references, YAML dump/load vs dict parse",
        "Seeded random configurations (96 quick / 19200 thorough, ~4.5 (tower, step) runs each, each followed in the same process by four variants on the same grid; oracle from a deep copy of the configuration as given, which the run must not mutate) over closures, precisions, footprint/dispersion, analytic, default/explicit halo and modes, output_levels/full_output/default, z0/ustar/both, scalar/list forcing, 1-3 towers, every time index, ideal and user-supplied flux. A fifth of the configurations put the reference origin on the equator and / or the Greenwich meridian (a coordinate exactly 0); the tower's local coordinates are re-derived by the harness from latitude / longitude.",
        "Trusted: the pipeline order as documented in the interface's docstring (z0 precedence, level rule).",
        "DESIGN.md section 4, C13",
    ),
    "C14": (
        "exploration",
        "history/schedule monitor: serial table of single runs as model; module-level run_bldfm_single wrapped before the pool forks (per-task delays random / adversarial, worker log of pid, task, start, end); slow-cache-writer injection; offline check of executed tasks and completion orders",
        "Shapes 1x1..4x2 x three strategies x workers 1/2/3/5 x delay schemes x parent threads 1/4 x cache off/on (explicit and default halo) x distinct / twin / equal-height towers x repeated met x six timestamp kinds: 40 quick / 1200 thorough configurations, ~5 parallel calls each; a strategy for which no out-of-order completion was observed makes the run inconclusive. Kernel cache: warm in two worlds (seeded single-thread-first / multi-thread-first, shards alternate) and empty (three quick / twelve thorough first-use runs in a subprocess with an empty numba cache directory); that the parent's thread pool is really running before the fork is observed through numba.threading_layer() (never observed => inconclusive).",
        "Trusted: fork start method; schedules are those produced by the injected delays on this machine (counts reported).",
        "DESIGN.md section 4, C14",
    ),
    "C15": (
        "fault_enumeration",
        "history monitor + fault enumeration: recording GreensFunctionCache subclass and counting sweep wrapper against the model 'uncached solve; identical request => hit; hit => no sweep'; every truncation length of stored entries, byte corruption, zero-length/garbage files, SIGKILL at every write/rename syscall of a storing process (strace injection)",
        "All ordered pairs A->B->B->A over a 25-request alphabet that varies every solver argument one at a time (625 histories), random sequences also split over two processes, 2-4 processes hammering one directory and 2-4 forked children using one inherited cache object at the same time (slow writer), truncation at every byte offset of four stored entries (thorough; quick: every 5th offset plus both ends, ~6200 points), 44 corruptions per case, and one kill per syscall of the put (12 + the first syscall after it). Halo variants are chosen by pad class (same pads as the base, same in x only, same in y only); after every third damaged entry (and at the ends of the enumeration) the identical request is issued twice: miss + correct, then hit without a solve.",
        "Trusted: strace's per-tracee injection counter; a fault that stores a valid entry of another request under this key is not producible by an interrupted run and is not injected.",
        "DESIGN.md section 4, C15",
    ),
    "C09": (
        "exploration",
        "reference-model monitor: harness's own Businger-Dyer functions, log-law, similarity diffusivities and exp-mapped grid evaluated next to every observed vertical_profiles / psi / phi call; quadrature oracle for psi",
        "Seeded random sampling (640 quick / 102 400 thorough draws, each followed in the same process by two sibling calls that differ from it in exactly one argument) over closures MOST/MOSTM/CONSTANT/OAAHOC, ustar and z0 forcing, both stabilities to the neutral limit, n=1..64, Prandtl numbers, default and non-default domain_height/stretch; exact formulas compared to 1e-10..1e-12 plus the ustar->z0->ustar round trip; psi against scipy quadrature, continuity at 0 and the reference model's copies. The wind vector is handed over as tuple / list / float64 array / strided view behind the argument-purity guard.",
        "Trusted: the similarity formulas written in vlib/gen.py and the check; scipy.integrate.quad. Round-trip and top-node tolerances include the documented rounding amplification of the exp-map.",
        "DESIGN.md section 4, C09",
    ),
    "C18": (
        "exploration",
        "reference-model monitor: the in-memory result set is the model; every (time, tower, level) slice, coordinate and label read back from the file, positionally and through .sel, is compared bit for bit; self-identifying serial-number fields",
        "Synthetic result sets over towers 1-4 x steps 1-4 x 2-D/3-D x value classes (denormals, 1e+-300, zeros, -0.0, float32, serial numbers) x five timestamp kinds (incl. labels not in lexicographic order) x ustar/z0 forcing x homogeneous/heterogeneous level heights, plus sets produced by run_bldfm_multitower; bitwise comparison of fields, exact comparison of coordinates, labels, tower metadata, met values, global attributes. Level heights also come descending and shuffled; every third case writes a second, different set to the same path at once.",
        "Trusted: xarray/netCDF4 as the reader used by load_footprints_from_netcdf; result dicts keyed in configuration order (what every driver returns).",
        "DESIGN.md section 4, C18",
    ),
    "C19": (
        "exploration",
        "reference-model monitor: Kormann & Meixner (2001) eqs. 9, 11, 18-21, 31-36 re-evaluated with an own rotation next to every observed estimateFootprint call; relation monitors for int/float parity, symmetry, rot90, mass vs incomplete gamma, estimateZ0 inversion and rotation invariance",
        "Seeded random physically consistent parameter sets (200 quick / 21600 thorough), each exercised by ~40 monitored calls incl. later calls in the same process with the same height and stability and other wind / friction velocity: cell-by-cell closed form (1e-10), integer parity in every scalar position and three integer types, sign/downwind/symmetry, wd+90k == rot90, mass residual law at four resolutions on the footprint's own scale, estimateZ0 log-law inversion and invariance under integer rotations. estimateFootprint / estimateZ0 run behind the argument-purity guard.",
        "Trusted: scipy.special gamma/gammaincc; the paper's equations as transcribed in the check; mass thresholds are calibrated constants with a 3x margin.",
        "DESIGN.md section 4, C19",
    ),
    "C20": (
        "exploration",
        "reference-model monitor: O(n^2) brute-force evaluation of the definition (exact rational arithmetic for the percentile search) next to every observed get_source_area / extract_percentile_contour call; metamorphic relations (monotone transform, permutation, scaling, monotonicity in p)",
        "Seeded random fields (ties, zeros, sparse, 1e+-200 magnitudes, solver footprints) x the five built-in base functions and random bases (with and without ties) x 2-D/3-D inputs x 1-D/2-D coordinates x C / Fortran / transposed / strided memory layouts x p in (0,1] incl. 1.0 and 1e-9: 240 quick / 38400 thorough cases, ~35 monitored calls each; exact comparison outside an explicit rounding band. extract_percentile_contour runs behind the argument-purity guard.",
        "Trusted: Python Fraction/fsum arithmetic; the rounding-band width 8*n ulp.",
        "DESIGN.md section 4, C20",
    ),
    "C16": (
        "exploration",
        "reference-model monitor: executable model of the met-forcing semantics evaluated next to the real code on the complete pattern space; recording stubs on the real drivers count iterations",
        "Exhaustive enumeration of the finite pattern space the property quantifies over (2^4 list/scalar patterns x lengths 1-4 x timestamps absent/right/long/short x ustar/z0 presence x per-field length mismatches), each configuration run through MetConfig.validate, parse_config_dict, YAML load, run_bldfm_timeseries and cli.cmd_run (solver stubbed by a recorder) and compared with a 10-line reference model. Exhaustive inside the stated bounds, nothing claimed outside them. Series whose entries recur are run through the driver and judged on the returned list (i-th timestamp, i-th parameters).",
        "Trusted: the reference model in checks/c16_met_timeseries.py; list-valued = Python list; lengths > 4 not run.",
        "DESIGN.md section 4, C16",
    ),
    "C17": (
        "exploration",
        "reference-model monitor: haversine distance and great-circle initial bearing evaluated next to every observed conversion; round-trip and orientation relations on the real functions",
        "Stratified + seeded random sampling (>= 16k points quick, 3M thorough) of reference points |lat|<=60, any longitude incl. the antimeridian, offsets 0.5 m - 5 km, scalars and arrays, towers of parsed configurations and of configurations re-built under other origins; exact oracle for round trips/orientation, great-circle oracle with the property's own 0.1 % / 0.1 deg limits. xy_to_latlon runs behind the argument-purity guard.",
        "Trusted: spherical Earth R=6371000 m; math/numpy trigonometry. Held on the sampled points only.",
        "DESIGN.md section 4, C17",
    ),
}


# workloads added after rounds 8-10 of independently written breaking changes (appended to the level text)
ADDENDA = {
    "C09": " Round 14: OAAHOC with the tke argument omitted (documented default 1.0); a third of the calls repeated under warnings / floating-point flags escalated to errors.",
    "C12": " Round 12: a 40-level output on 256 x 256 retained components in both precisions and both modes (every eighth history). Round 13: big-endian / read-only spellings of the same values (a request rejected in a fresh process must be rejected after other solves too; repo fix 2571e16). Round 14: working-directory changes and plan-cache expiry in the histories; every fourth history ends with four Python threads issuing solves concurrently. Round 15: profile tuples whose arrays are separate copies / one shared object.",
    "C07": " Round 12: a background concentration under transposition and both rescalings (unchanged by a change of length unit, divided by a change of velocity unit). Round 13: mirrored towers given at negative coordinates; anisotropic columns with Kx = Ky at the top node only (shared generator).",
    "C01": " Later additions: wind veering with height, regional domains, families with height-independent wind / Kx, growth tuned to 13-18.5 on 32-layer grids (half of these request single-precision output, with a storage allowance of N*eps32*max|field| per component), wind exactly along a grid axis in an eighth of the cases, the unit source in a random cell (phase ramp compensated) in half of them, the three output heights requested in rotated order. Round 14 (every check): every fourth shard runs the package at DEBUG verbosity. Round 15 (every check): an exception raised inside the package for a generated input is a verdict, not a harness error.",
    "C02": " Later additions: measurement points handed over as float32 scalars / arrays wherever the coordinates are exactly float32 numbers (a third of the grids have cell sizes in multiples of 1/16 m), switches as numpy.bool_ / 0-1, utils.point_measurement under C / Fortran / transposed / strided layouts, the analytic branch. Round 13 (call path, every relation check): source, heights and profiles spelled as big-endian or read-only arrays; a call rejected half-way in the other precision precedes half of the decoy cases. Round 14: the forward run centred on the tower (value read at the window centre) for flux maps with a zero rim.",
    "C03": " Later additions: a case kind with grids one cell wide in x or y (zero, sub-cell and wide halos: unit footprint sum, mean flux), zero sources, footprint-mode background, towers beside the map under a halo. Round 13: halo = pad / crop on grids one cell wide.",
    "C04": " Later additions: zero-source and footprint-mode background clauses; the footprint switch spelled as numpy.bool_ or 1; operands and combinations that are exactly uniform.",
    "C05": " Later additions: in 40 % of the closed-form cases one coefficient (u, v, Kx or Ky) is exactly zero at every node; components damped by e^-750 .. e^-1500; mixed mode requests; calm wind, surface level and deep columns in the order study; an anomalously small error at 2n is judged by the least-squares order over four resolutions (>= 2.4); every other refinement requests two levels in non-ascending order. Round 12: large spectra (more than 512 x 512 retained components, with and without truncation): every resolved component of the numerical mode converges to the closed form from 2n to 8n layers. Round 13: the closed-form clause also in physical space with the unpaired cut-off components included (retained set -m/2 .. m/2-1).",
    "C06": " Later additions: re-centring judged on the whole window under a halo (field of a compact source moved the other way, cells fed from the halo included); tower translation under a halo incl. towers outside the map; re-centring on points west / south of the map. Round 12: a tower moved by whole cells by editing its local coordinates, through run_bldfm_single / run_bldfm_multitower (with and without a reference origin).",
    "C08": " Later additions: unsigned and 16-bit integer inputs, references beside the meridians, slow-veer and cached series run twice with grid comparison, configurations re-centred with dataclasses.replace. Round 12: several output levels / the full column through the interface (the slice of the measurement node is the footprint); elongated windows (aspect 3-4.5) with the default halo; the centre of mass of the whole footprint within 15 degrees for default-halo runs (observed <= 9.0). Round 13: calm records (speed exactly zero); the direction sweep also through run_bldfm_parallel (time, 2 workers). Round 14: a light-wind record (0.42 m/s) inside the direction sweep. Round 15: wind directions given a full turn (or two) off.",
    "C10": " Later additions: unsigned level dtypes and an interface-series clause over levels 0 .. nz+1.",
    "C11": " Later additions: a coordinate clause (returned grid against the stated cell centres, 65536 pairs per quick run) and zero-source pairs under a halo. Round 12: what lies strictly beyond the cut-off of a truncated axis is removed (also when the other axis is requested at exactly the padded size). Round 14: dispersion runs re-centred on a point west and south of the map in the halo = pad / crop clause.",
    "C13": " Later additions: analytic combined with every closure; timestamps as datetime / date objects (PyYAML's reading of unquoted dates), integers and permutations; section-less configurations varied in place; both level options; towers outside the map; user-supplied flux on a finer grid; tower names that read as numbers, truth words or dates. Round 12: mode requests above the grid along one axis and below it along the other. Round 13: towers handed over as modified copies (same name, other height and position). Round 14: YAML files in a sub-folder, addressed absolutely and as pathlib.Path; output sections. Round 15: closure OAAHOC; hand-written YAML with anchors and merge keys; a rejected file whose dictionary is accepted is a violation.",
    "C14": " Later additions: cold cases (sub-process with an empty kernel cache), a live worker-pool monitor, dispersion and src_loc configurations, slowly drifting series, user flux through the serial drivers, 'both' strategy with unequal tower and step counts; 30 % of the parallel calls follow a call that raised (mistyped strategy with a flux map). Round 12: entries are independent arrays - what is done to one entry in place leaves every other entry as it was. Round 13: masts moved by hand; the caller's configuration comes back unchanged; a missing entry is a violation. Round 14: one-row domains; a second parallel run on the same configuration object after in-place edits; the cache directory is removed between driver calls and a driver exception is a verdict.",
    "C15": " Later additions: pad-class variants of one request, recovery probes after a damaged entry, long level lists, mode requests above / clamped to the grid, swapped profiles, requests written with the same digits ([1, 12] / [11, 2]; level 1 on 26x40 / level 12 on 6x40). Round 14: one-row / one-column multi-level requests; another client's lookup injected between a miss and its store; an entry left by another writer with the documented positional put(); every second damaged-entry probe under warnings escalated to errors. Round 15: the cache directory on another filesystem than the temporary directory's (skipped and counted where none exists); a single-precision multi-level request.",
    "C16": " Later additions: recurring-entry series judged on the returned list, label kinds, configurations without a reference origin. Round 14: integer labels that are also positions; sparse forcings parsed right after full ones; light-wind and calm records. Round 15: command-line runs with three towers; out-of-range wind directions in series.",
    "C17": " Later additions: origins spelled as whole degrees (int), numpy scalars, 0 (equator / prime meridian); float32 station tables; 2-D offset tables that are not a meshgrid; towers a few metres from the origin. Round 12: closed outlines (first point repeated) as a column / a row, point clouds with repeated rows; configurations with and without the solver / parallel / output sections (every switch drawn). Round 14: an implausible configuration built before the good one; a valid configuration that is rejected is a violation. Round 15: configurations assembled from the dataclasses - the caller's own tower objects come out located.",
    "C18": " Later additions: label kinds that read as numbers ('0030', '1e3', '12.0'), datetime labels, configurations without a reference origin, unsorted level heights, sibling file names of a parameter sweep, sentinel and extreme values. Round 13: timezone-aware and sub-second stamps; result sets that are a non-prefix subset of the configured steps. Round 14: the file removed / the working directory changed between the load and the first access of a field.",
    "C19": " Later additions: near-cardinal and integer-typed wind directions, infinite L, a receptor on a cell centre, every multiple of 90 degrees from -360 to 720. Round 14: receptors on an edge or corner of the raster, or beside it. Round 15: wind-aligned rasters centred on the receptor; smoothed roughness length within the range of its window's raw estimates, with screened outliers in the series.",
    "C20": " Later additions: a per-cell relative clause (each value within 16 n eps of the bounds of the cell's own sum) and fields spanning 30 decades; base fields of signed / unsigned integer type (rank maps, class codes incl. 0). Round 13: base fields with infinite entries and log(f) of a field with exact zeros. Round 14: stacks of levels handed over whole; rasters with one or both coordinate axes descending.",
}

ALL = [f"C{i:02d}" for i in range(1, 21)]
SHADOW = ("C04", "C08", "C10", "C12", "C13", "C14", "C15", "C16", "C17", "C18", "C19", "C20")


def main():
    checks = []
    for pid in ALL:
        if pid not in CHECKS:
            continue
        cat, tech, text, note, ref = CHECKS[pid]
        text = text + ADDENDA.get(pid, "")
        if pid in SHADOW:
            text += (" Thorough tier also: shadow oracles (vlib/shadow.py) beside every call that the repository's own test suite and eleven of its example "
                     "scripts make to the functions this property speaks about (arguments snapshotted before the call, reference model / relation evaluated "
                     "after it with the original callables); zero oracle evaluations under the tests is INCONCLUSIVE.")
        checks.append(
            {
                "property_id": pid,
                "quick_cmd": f"./check {pid} --tier quick",
                "thorough_cmd": f"./check {pid} --tier thorough",
                "evidence_file": f"evidence/{pid}.json",
                "replay_cmd_template": f"./check {pid} --replay {{path}}",
                "engine": "bldfm-runtime-monitor",
                "level_claimed": {"category": cat, "text": text, "design_ref": ref},
                "level_note": note,
                "technique": tech,
            }
        )
    na = [
        {"property_id": pid, "reason": "not claimed yet: its runtime monitor is designed (DESIGN.md section 4) but not built at this commit"}
        for pid in ALL
        if pid not in CHECKS
    ]
    man = {
        "version": 1,
        "setup_cmd": "./setup.sh",
        "hooks": {
            "guard": "BLDFM_VERIF",
            "enable": "none needed: every monitor attaches from the harness (wrapping/rebinding public callables, subclassing, strace syscall injection); BLDFM_VERIF=1 is exported by the runner for completeness but no source line reads it",
            "baseline_off_cmd": "cd /repo && /venv/bin/python -m pytest -ra -q -p no:cacheprovider --timeout=900 --continue-on-collection-errors",
            "source_commits": [],
            "add_only": True,
        },
        "engines": [
            {
                "name": "bldfm-runtime-monitor",
                "path": "vlib/runner.py",
                "serves_properties": [c["property_id"] for c in checks],
                "kind_free_text": "runtime monitoring: the real code is executed from /repo's working tree in sharded worker processes under generated / hostile / fault-injected workloads; reference-model, relation and invariant monitors decide; three-valued verdicts; evidence measured per run",
            }
        ],
        "checks": checks,
        "not_applicable": na,
        "notes": "Entry point ./check <ID> --tier quick|thorough [--replay FILE]; exit 0 held, 1 VIOLATION, 2 INCONCLUSIVE. VERIF_SEED seeds every random choice. Known findings: KNOWN_FINDINGS.txt. Design: DESIGN.md.",
    }
    (VERIF / "MANIFEST.json").write_text(json.dumps(man, indent=1) + "\n")
    try:
        import jsonschema

        jsonschema.validate(man, json.load(open("/root/.vp/MANIFEST.schema.json")))
        print("MANIFEST.json valid;", len(checks), "checks,", len(na), "not_applicable")
    except ImportError:
        print("jsonschema not available; wrote without validating")


if __name__ == "__main__":
    sys.exit(main())
