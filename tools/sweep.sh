#!/bin/bash
# tools/sweep.sh <tier> "<seeds>" [ids...] : run checks, one summary line each (evidence/replay go to a scratch dir)
cd "$(dirname "$0")/.."
tier=${1:-quick}; seeds=${2:-0}; shift 2
ids=${@:-C01 C02 C03 C04 C05 C06 C07 C08 C09 C10 C11 C12 C13 C14 C15 C16 C17 C18 C19 C20}
out=$(mktemp -d /tmp/bldfm-sweep-XXXX)
export VERIF_EVIDENCE_DIR=$out/ev VERIF_REPLAY_DIR=$out/rp
for s in $seeds; do for id in $ids; do
  t0=$(date +%s)
  VERIF_SEED=$s ./check $id --tier $tier > $out/$id.$s.log 2>&1; rc=$?
  echo "$id seed=$s tier=$tier rc=$rc $(( $(date +%s)-t0 ))s $(grep -E 'VIOLATION|INCONCLUSIVE' $out/$id.$s.log | head -2 | cut -c1-200 | tr '\n' ' ')"
  [ $rc -ne 0 ] && cp $out/$id.$s.log ./sweep_fail_$id.$s.log
done; done
rm -rf $out
