#!/bin/bash
# tools/try_patch.sh <patch.diff> <tier> <ID...> : scratch copy of /repo/src with the patch applied; run the given checks against it
# (BLDFM_VERIF_SRC; evidence/replay redirected into the scratch directory, which is removed afterwards)
patch=$(readlink -f "$1"); tier=$2; shift 2
d=$(mktemp -d /tmp/bldfm-try-XXXX)
cp -r /repo/src $d/src && (cd $d && patch -s -p1 < "$patch") || { echo "patch failed"; rm -rf $d; exit 3; }
cd "$(dirname "$0")/.."
for id in "$@"; do
  BLDFM_VERIF_SRC=$d/src VERIF_EVIDENCE_DIR=$d/ev VERIF_REPLAY_DIR=$d/rp ./check $id --tier $tier > $d/$id.log 2>&1; rc=$?
  echo "$id rc=$rc $(grep -o '"what": "[a-z_A-Z0-9]*"' $d/$id.log | sort | uniq -c | sort -rn | head -4 | tr '\n' ' ') $(grep -E '^INCONCLUSIVE' $d/$id.log | head -1 | cut -c1-300)"
done
rm -rf $d
