"""C03 - level-by-level conservation, unit footprint sum, halo == pad/crop.

Relation + reference-model monitor.  The padded periodic domain is observed
through the public API by explicit padding with halo=0.
"""

import math

ID = "C03"
LEVEL = "exploration"
RULE = (
    "seeded random set-ups inside the conditioning guard x sources with non-zero mean x levels x backgrounds x both precisions; per case: "
    "(i) mean flux == mean surface flux at every level on the full periodic domain (halo=0), (ii) mean concentration == bg - mean(q0)*R(z_k) "
    "with R judged by (a) the exact value for height-independent Kz, (b) the nodal Riemann bracket, (c) a refinement study against "
    "scipy quadrature for analytic Kz(z); (iii) footprint weights sum to one at every level (halo=0); (iv) solver(halo=h) == crop of "
    "solver(zero-padded source, enlarged domain, halo=0) in dispersion and footprint mode for every halo class. non-trivial = (iv) "
    "with pad >= 1 cell or (i)-(iii) with a non-constant source; distinct = distinct (set-up idx, sub-check)"
)
ASSUMPTIONS = [
    "the resistance integral is only defined up to the quadrature rule on nodal data: bracket + refinement oracles (DESIGN C03)",
    "identities 1e-11 (double), 1e-6 (single, complex64 storage of the mean mode)",
]
MIN_NONTRIVIAL = {"quick": 200, "thorough": 9600}
TIMEOUT = {"quick": 900, "thorough": 7000}
EX = {"double": 1e-11, "single": 2e-6}


def cases(tier, seed):
    from vlib.gen import HALO_CLASSES

    n = 160 if tier == "quick" else 28800
    out = [{"seed": seed, "idx": i, "kind": "conservation"} for i in range(n)]
    out += [{"seed": seed, "idx": i, "kind": "halo", "halo_class": [c for c in HALO_CLASSES if c != "zero"][i % 5]} for i in range(n)]
    out += [{"seed": seed, "idx": i, "kind": "refine"} for i in range(n // 8)]
    out += [{"seed": seed, "idx": i, "kind": "one_cell_axis"} for i in range(n // 5)]
    return out


def run_case(case):
    return {"conservation": conservation, "halo": halo_equiv, "refine": refine, "one_cell_axis": one_cell_axis}[case["kind"]](case)


def one_cell_axis(case):
    """(i) and (iii) on grids that are one cell wide in x or in y (a vertical-plane problem): with no halo, or one narrower than a cell,
    the series along that axis consists of the mean alone."""
    import numpy as np
    from vlib import gen, solve

    rng = gen.rng_for(case["seed"], "C03o", case["idx"])
    St, nskip = gen.draw_setup(rng, halo_classes=("zero",), mode_classes=("full", "over"), even=rng.random() < 0.7)
    if St is None:
        return {"evals": 0, "nontrivial": False, "skipped": "no draw inside the conditioning guard"}
    axis = "x" if case["idx"] % 2 else "y"
    nx, ny = (1, St["ny"]) if axis == "x" else (St["nx"], 1)
    dx, dy = St["dx"], St["dy"]
    hk = str(rng.choice(["zero", "sub_cell", "wide"]))
    halo = {"zero": 0.0, "sub_cell": float(rng.uniform(0.1, 0.9)) * min(dx, dy), "wide": float(rng.uniform(1.1, 3.0)) * max(dx, dy)}[hk]
    # an odd cell count takes no even mode count: a request above the grid (every component retained) is the only valid one
    S1 = dict(St, nx=nx, ny=ny, domain=(nx * dx, ny * dy), halo=halo, modes=(512, 512))
    z = np.asarray(St["z"], dtype=float)
    prec = "double" if rng.random() < 0.7 else "single"
    levels, lkind = solve.pick_levels(rng, len(z))
    nl = solve.nlev(levels)
    viol, resid = [], {}
    desc = dict(gen.describe(St), nx=nx, ny=ny, halo=halo, one_cell_axis=axis)
    n_long = max(nx, ny)
    j = int(rng.integers(n_long))
    mp = (0.0, j * dy) if axis == "x" else (j * dx, 0.0)
    _, G, F = solve.solve(S1, np.zeros((ny, nx)), levels, footprint=True, precision=prec, meas_pt=mp)
    F = np.asarray(F).reshape(nl, ny, nx)
    q0 = rng.uniform(0.5, 1.5, size=(ny, nx))
    _, c, f = solve.solve(S1, q0, levels, precision=prec, meas_pt=mp if rng.random() < 0.5 else (0.0, 0.0))
    f = np.asarray(f).reshape(nl, ny, nx)
    for k in range(nl):
        sabs = float(np.abs(F[k]).sum())
        tot = float(F[k].sum())
        resid[f"one_cell_axis_footprint_sum_{prec}"] = max(resid.get(f"one_cell_axis_footprint_sum_{prec}", 0.0), abs(tot - 1.0) / max(1.0, sabs))
        if hk != "wide":
            # the returned window is the whole periodic domain: weights sum to one, mean flux is the mean source
            if not abs(tot - 1.0) <= (EX[prec] if prec == "double" else 1e-5) * max(1.0, sabs):
                viol.append({"what": "footprint_weights_do_not_sum_to_one", "level": k, "sum": tot, "precision": prec, "setup": desc, "meas_pt": mp})
            e = abs(float(f[k].mean()) - float(q0.mean())) / max(float(np.abs(q0).mean()), float(np.max(np.abs(f[k]))))
            resid[f"one_cell_axis_mean_flux_{prec}"] = max(resid.get(f"one_cell_axis_mean_flux_{prec}", 0.0), e)
            if not e <= (EX[prec] if prec == "double" else 1e-5):
                viol.append({"what": "mean_flux_not_conserved", "level": k, "rel": e, "precision": prec, "setup": desc})
        else:
            # part of the weight lies in the halo: the window holds no more than all of it
            if not (-1e-6 * max(1.0, sabs) <= tot <= 1.0 + 1e-6 * max(1.0, sabs)) and float(np.min(F[k])) >= 0.0:
                viol.append({"what": "footprint_weights_do_not_sum_to_one", "level": k, "sum": tot, "precision": prec, "setup": desc, "meas_pt": mp,
                             "note": "non-negative weights over part of the periodic domain sum to more than one"})
    ncalls = 2
    if hk == "wide":
        # (iv) on the one-cell-wide grid: a halo of whole cells equals the caller padding by those cells (also along the one-cell axis),
        # enlarging the domain and cropping
        px_, py_ = int(halo / (S1["domain"][0] / nx)), int(halo / (S1["domain"][1] / ny))
        qpad = np.pad(q0, ((py_, py_), (px_, px_)))
        Sp = dict(S1, domain=(S1["domain"][0] + 2 * px_ * dx, S1["domain"][1] + 2 * py_ * dy), halo=0.0)
        _, ch, fh = solve.solve(S1, q0, levels, precision=prec)
        _, cp, fpd = solve.solve(Sp, qpad, levels, precision=prec)
        ncalls += 2
        ch, fh = np.asarray(ch).reshape(nl, ny, nx), np.asarray(fh).reshape(nl, ny, nx)
        cp = np.asarray(cp).reshape(nl, ny + 2 * py_, nx + 2 * px_)[:, py_: py_ + ny, px_: px_ + nx]
        fpd = np.asarray(fpd).reshape(nl, ny + 2 * py_, nx + 2 * px_)[:, py_: py_ + ny, px_: px_ + nx]
        tolh = solve.tol(prec, St["G"], cr=St["cr"])
        sc_c, sc_f = solve.amp_scales(S1, q0)
        for nm_, a_, b_, sc_ in (("conc", ch, cp, sc_c), ("flx", fh, fpd, sc_f)):
            e = float(np.max(np.abs(a_ - b_))) / max(float(np.max(np.abs(b_))), sc_, 1e-300)
            resid[f"one_cell_axis_halo_vs_pad_{prec}"] = max(resid.get(f"one_cell_axis_halo_vs_pad_{prec}", 0.0), e)
            if not e <= tolh:
                viol.append({"what": "halo_not_equivalent_to_pad_and_crop", "field": nm_, "rel": e, "tol": tolh, "pad": (px_, py_), "precision": prec, "setup": desc,
                             "note": "grid one cell wide"})
    return {"evals": 2 * nl, "nontrivial": True, "sig": f"one|{case['idx']}", "buckets": {f"one_cell_axis:{axis}:{hk}": 1, f"prec:{prec}": 1},
            "resid": resid, "counters": {"solver_calls": ncalls, "one_cell_axis_grids": 1}, "violations": viol,
            "sample": {"setup": desc, "levels": levels}}


def _nonzero_mean_source(rng, ny, nx):
    import numpy as np
    from vlib import gen

    q0, kind = gen.make_source(rng, ny, nx)
    q0 = q0 + float(rng.choice([0.0, 0.5, -2.0]))
    if abs(q0.mean()) < 1e-3 * (np.abs(q0).max() or 1):
        q0 = q0 + 1.0
    return q0, kind


def conservation(case):
    import numpy as np
    from vlib import gen, solve

    rng = gen.rng_for(case["seed"], "C03c", case["idx"])
    St, nskip = gen.draw_setup(rng, halo_classes=("zero",), even=rng.random() < 0.8)
    if St is None:
        return {"evals": 0, "nontrivial": False, "skipped": "no draw inside the conditioning guard"}
    nx, ny = St["nx"], St["ny"]
    intz = False
    if St["pdesc"]["kind"] == "constant" and case["idx"] % 3 == 1:
        # the same kind of column on an integer-valued height grid handed over with an integer dtype (heights in whole metres)
        zi = np.cumsum(rng.integers(1, 4, size=len(St["z"]))).astype(np.int64)
        kx_, ky_, _, _ = gen.wavenumbers(nx, ny, St["dx"], St["dy"], St["px"], St["py"], St["modes"])
        Gi = gen.growth(zi.astype(float), St["profiles"], kx_, ky_)
        if Gi <= gen.G_MAX:
            St = dict(St, z=zi, G=Gi, cr=gen.conductance_ratio(zi.astype(float), St["profiles"]))
            intz = True
    z, prof = np.asarray(St["z"], dtype=float), St["profiles"]
    Kz = np.asarray(prof[4], dtype=float)
    nz = len(z)
    prec = "double" if rng.random() < 0.7 else "single"
    levels, lkind = solve.pick_levels(rng, nz)
    nl = solve.nlev(levels)
    lv = [levels] if nl == 1 and np.ndim(levels) == 0 else list(levels)
    viol, resid = [], {}
    counters = {"solver_calls": 0, "bracket_evals": 0, "exact_R_evals": 0}
    desc = gen.describe(St)
    q0, skind = _nonzero_mean_source(rng, ny, nx)
    bg = float(rng.choice([0.0, rng.normal() * 5]))
    bg_arg = bg
    if case["idx"] % 4 == 2:  # a background given as a whole number (Python int / numpy integer), e.g. 400 ppm
        bg = float(rng.integers(-5, 420))
        bg_arg = [int, np.int64, np.int32][case["idx"] % 3](bg)
        counters["integer_typed_background"] = 1
    if intz:
        counters["integer_typed_heights"] = 1
    analytic = St["pdesc"]["kind"] == "constant" and rng.random() < 0.4
    _, conc, flx = solve.solve(St, q0, levels, srf_bg_conc=bg_arg, precision=prec, analytic=analytic)
    counters["solver_calls"] += 1
    conc, flx = solve.as3d(conc, nl), solve.as3d(flx, nl)
    qm = float(q0.mean())
    sc = float(np.abs(q0).mean())
    dz = np.diff(z)
    inv = 1.0 / Kz
    Rfull = float(np.sum(dz * np.maximum(inv[:-1], inv[1:])))
    for k, L in enumerate(lv):
        # (i)
        # single precision: storage rounding is relative to the field maximum (the scale C12 states it on)
        # (double precision as well: the mean is a sum over cells of values of magnitude max|flx|, a sparse source has a mean far below its
        # maximum - thorough tier, seed 3: 1.18e-11 of the mean for an impulse-like source at G = 16.6)
        scf = max(sc, float(np.max(np.abs(flx[k]))))
        e = abs(float(flx[k].mean()) - qm) / scf
        resid[f"mean_flux_{prec}"] = max(resid.get(f"mean_flux_{prec}", 0), e)
        if not e <= (EX[prec] if prec == "double" else 1e-5):
            viol.append({"what": "mean_flux_not_conserved", "level": L, "rel": e, "precision": prec, "setup": desc, "analytic": analytic})
        # (ii)
        R = (bg - float(conc[k].mean())) / qm
        lo = float(np.sum(dz[:L] * np.minimum(inv[:L], inv[1 : L + 1])))
        hi = float(np.sum(dz[:L] * np.maximum(inv[:L], inv[1 : L + 1])))
        # R is recovered from a horizontal mean of a rounded field: absolute slack relative to everything that is summed
        slack = EX[prec] * (Rfull + (abs(bg) + float(np.max(np.abs(conc[k] - bg)))) / abs(qm))
        counters["bracket_evals"] += 1
        if not (lo - slack <= R <= hi + slack):
            viol.append({"what": "mean_concentration_resistance_outside_nodal_bracket", "level": L, "R": R, "lower": lo, "upper": hi,
                         "precision": prec, "setup": desc, "analytic": analytic, "bg": bg})
        if np.ptp(Kz) == 0:
            counters["exact_R_evals"] += 1
            ex = (z[L] - z[0]) / Kz[0]
            e = abs(R - ex) / (Rfull + (abs(bg) + float(np.max(np.abs(conc[k] - bg)))) / abs(qm))
            resid[f"R_constKz_{prec}"] = max(resid.get(f"R_constKz_{prec}", 0), e)
            if not e <= EX[prec]:
                viol.append({"what": "mean_concentration_resistance_constant_Kz", "level": L, "R": R, "expected": ex, "precision": prec,
                             "setup": desc, "analytic": analytic})
    # the same identities for the zero source (mean flux 0): every level keeps the background, no flux appears
    if case["idx"] % 4 == 0:
        _, cz, fz = solve.solve(St, np.zeros((ny, nx)), levels, srf_bg_conc=bg_arg, precision=prec, analytic=analytic)
        counters["solver_calls"] += 1
        counters["zero_source_runs"] = counters.get("zero_source_runs", 0) + 1
        cz, fz = solve.as3d(cz, nl), solve.as3d(fz, nl)
        if cz.shape != (nl, ny, nx) or not float(np.max(np.abs(fz.mean(axis=(1, 2))))) <= 1e-300 \
                or not float(np.max(np.abs(cz.mean(axis=(1, 2)) - bg))) <= (1e-12 if prec == "double" else 1e-6) * (abs(bg) or 1.0):
            viol.append({"what": "mean_concentration_of_zero_source_is_not_the_background", "shape": cz.shape, "bg": bg,
                         "mean_conc": cz.mean(axis=(1, 2)).tolist() if cz.ndim == 3 else None, "precision": prec, "setup": desc, "analytic": analytic})
    # (iii)
    _, G, F = solve.solve(St, np.zeros((ny, nx)), levels, footprint=True, precision=prec, analytic=analytic,
                          meas_pt=(float(rng.integers(nx)) * St["dx"], float(rng.integers(ny)) * St["dy"]))
    counters["solver_calls"] += 1
    F = solve.as3d(F, nl)
    G = solve.as3d(G, nl)
    for k, L in enumerate(lv):
        # rounding of a sum is relative to the sum of magnitudes (unresolved modes can make |F| large on coarse columns)
        sabs = float(np.abs(F[k]).sum())
        e = abs(float(F[k].sum()) - 1.0) / max(1.0, sabs)
        resid[f"footprint_sum_{prec}"] = max(resid.get(f"footprint_sum_{prec}", 0), e)
        if e > (1e-13 if prec == "double" else 2e-6) and abs(float(F[k].sum()) - 1.0) > EX[prec]:
            viol.append({"what": "footprint_weights_do_not_sum_to_one", "level": L, "sum": float(F[k].sum()), "precision": prec, "setup": desc})
        # sum of the concentration Green's function is minus the resistance (reciprocity with a uniform source)
        Rg = -float(G[k].sum())
        lo = float(np.sum(dz[:L] * np.minimum(inv[:L], inv[1 : L + 1])))
        hi = float(np.sum(dz[:L] * np.maximum(inv[:L], inv[1 : L + 1])))
        slack = EX[prec] * (Rfull + float(np.sum(np.abs(G[k]))))
        if not (lo - slack <= Rg <= hi + slack):
            viol.append({"what": "greens_function_sum_outside_resistance_bracket", "level": L, "minus_sum": Rg, "lower": lo, "upper": hi,
                         "precision": prec, "setup": desc})
    # the same footprint request with a background: the weights do not change and the concentration Green's function is offset by
    # exactly the background (mean over the periodic domain = background - resistance / number of cells)
    if case["idx"] % 3 == 2 and bg != 0.0:
        _, Gb, Fb = solve.solve(St, np.zeros((ny, nx)), levels, footprint=True, precision=prec, analytic=analytic, srf_bg_conc=bg_arg,
                                meas_pt=(0.0, 0.0))
        _, G0, F0 = solve.solve(St, np.zeros((ny, nx)), levels, footprint=True, precision=prec, analytic=analytic, meas_pt=(0.0, 0.0))
        counters["solver_calls"] += 2
        counters["footprint_with_background_runs"] = counters.get("footprint_with_background_runs", 0) + 1
        Gb, G0, Fb, F0 = (solve.as3d(a_, nl) for a_ in (Gb, G0, Fb, F0))
        eo = float(np.max(np.abs(Gb - G0 - bg))) / (abs(bg) + float(np.max(np.abs(G0))))
        ef_ = float(np.max(np.abs(Fb - F0))) / (float(np.max(np.abs(F0))) or 1.0)
        if not eo <= (1e-11 if prec == "double" else 5e-6) or not ef_ <= (1e-12 if prec == "double" else 1e-6):
            viol.append({"what": "footprint_mode_background_is_not_a_uniform_offset", "offset_rel": eo, "weights_rel": ef_, "bg": bg, "precision": prec,
                         "setup": desc, "analytic": analytic})
    b = {f"prec:{prec}": 1, f"levels:{lkind}": 1, f"profiles:{St['pdesc'].get('closure', St['pdesc']['kind'])}": 1,
         f"modes:{St['mode_class']}": 1, "analytic" if analytic else "numeric": 1, gen.gbucket(St["G"]): 1}
    return {"evals": 3 * nl + 2, "nontrivial": bool(np.ptp(q0) > 0), "sig": f"cons|{case['idx']}", "buckets": b, "resid": resid,
            "counters": counters, "violations": viol, "sample": {"setup": desc, "levels": levels, "bg": bg, "source": skind}}


def halo_equiv(case):
    import numpy as np
    from vlib import gen, solve

    rng = gen.rng_for(case["seed"], "C03h", case["idx"])
    St, nskip = gen.draw_setup(rng, halo_classes=(case["halo_class"],), even=rng.random() < 0.8)
    if St is None:
        return {"evals": 0, "nontrivial": False, "skipped": "no draw inside the conditioning guard"}
    nx, ny, dx, dy, px, py = St["nx"], St["ny"], St["dx"], St["dy"], St["px"], St["py"]
    nz = len(St["z"])
    prec = "double" if rng.random() < 0.75 else "single"
    levels, lkind = solve.pick_levels(rng, nz)
    nl = solve.nlev(levels)
    viol, resid = [], {}
    counters = {"solver_calls": 0, "bitwise_equal": 0, "compared": 0}
    desc = gen.describe(St)
    q0, skind = gen.make_source(rng, ny, nx)
    bg = float(rng.choice([0.0, rng.normal() * 5]))
    qpad = np.pad(q0, ((py, py), (px, px)))
    big = dict(St)
    big["domain"] = (St["domain"][0] + 2 * px * dx, St["domain"][1] + 2 * py * dy)
    big["halo"] = 0.0
    analytic = St["pdesc"]["kind"] == "constant" and rng.random() < 0.3
    for mode in ("dispersion", "dispersion_recentred", "footprint"):
        if mode == "dispersion":
            mp, mp_big, fp = (0.0, 0.0), (0.0, 0.0), False
        else:
            im, jm = int(rng.integers(nx)), int(rng.integers(ny))
            if mode == "dispersion_recentred" and im == 0 and jm == 0:
                im = 1
            if mode == "footprint" and (px or py) and case["idx"] % 3 == 0:
                # a tower standing beside the flux map: on its far edge (node nx / ny) or in the halo strip
                im = int(rng.choice([nx, -1, int(rng.integers(-px, nx + px + 1))])) if px else im
                jm = int(rng.choice([ny, -1, int(rng.integers(-py, ny + py + 1))])) if py else jm
                im, jm = max(-px, min(nx + px - 1, im)), max(-py, min(ny + py - 1, jm))
                counters["tower_outside_flux_map"] = counters.get("tower_outside_flux_map", 0) + int(not (0 <= im < nx and 0 <= jm < ny))
            mp = (im * dx, jm * dy)
            # dispersion: the re-centring shift xm - xmax/2 is invariant under the padding; footprint: the tower moves with the pad
            mp_big = (mp[0] + px * dx, mp[1] + py * dy)
            fp = mode == "footprint"
        kw = dict(srf_bg_conc=bg, precision=prec, footprint=fp, analytic=analytic)
        try:
            g1, c1, f1 = solve.solve(St, q0, levels, meas_pt=mp, **kw)
            g2, c2, f2 = solve.solve(big, qpad, levels, meas_pt=mp_big, **kw)
        except ValueError as e:
            if "parity" in str(e) or "even" in str(e):
                return {"evals": 0, "nontrivial": False, "skipped": "mode count rejected (parity)"}
            raise
        counters["solver_calls"] += 2
        c1, f1, c2, f2 = [solve.as3d(a, nl) for a in (c1, f1, c2, f2)]
        ssc, ssf = solve.surface_scales(big, qpad, meas_pt=mp_big, precision=prec, footprint=fp, analytic=analytic)
        c2c, f2c = c2[:, py : py + ny, px : px + nx], f2[:, py : py + ny, px : px + nx]
        for nm, a, b_, full, surf in (("conc", c1, c2c, c2, ssc), ("flx", f1, f2c, f2, ssf)):
            counters["compared"] += 1
            if a.shape == b_.shape and np.array_equal(a, b_):
                counters["bitwise_equal"] += 1
            # scale: the field on the whole padded domain (the cropped part may hold only rounding noise, e.g. a re-centred impulse)
            e = solve.relerr(a, b_, scale=max(float(np.max(np.abs(full))), surf, abs(bg) if nm == "conc" else 0.0, 1e-300))
            key = f"halo_vs_padcrop_{mode}_{prec}"
            resid[key] = max(resid.get(key, 0), e)
            # not the same arithmetic: the enlarged domain's dx differs from the original by an ulp, amplified by e^G
            if not e <= solve.tol(prec, St["G"], base=EX[prec], cr=St["cr"]):
                viol.append({"what": "halo_not_equivalent_to_pad_and_crop", "mode": mode, "field": nm, "rel": e, "precision": prec,
                             "meas_pt": mp, "levels": levels, "setup": desc, "analytic": analytic})
    b = {f"halo:{St['halo_class']}": 1, f"prec:{prec}": 1, f"modes:{St['mode_class']}": 1,
         f"parity:{'even' if nx % 2 == 0 and ny % 2 == 0 else 'odd'}": 1, "analytic" if analytic else "numeric": 1}
    return {"evals": 6, "nontrivial": bool(px >= 1 or py >= 1), "sig": f"halo|{case['idx']}", "buckets": b, "resid": resid,
            "counters": counters, "violations": viol, "sample": {"setup": desc, "levels": levels, "source": skind}}


def refine(case):
    """(ii-c): the recovered resistance converges to the integral of dz/Kz under refinement."""
    import numpy as np
    from scipy.integrate import quad
    from vlib import gen, solve

    rng = gen.rng_for(case["seed"], "C03r", case["idx"])
    zm = float(rng.uniform(2, 30))
    z0 = float(zm * 10 ** rng.uniform(-2, -0.7))
    fam = None
    for _ in range(20):
        fam = gen.Family.draw(rng, zm, z0)
        if fam.d["K"] != "const":
            break
    gridk = str(rng.choice(["uniform", "geometric", "expmap"]))
    n0 = int(rng.choice([4, 8, 16]))
    nx = ny = 4
    dx = dy = zm * 3.0
    errs = []
    exact, _ = quad(lambda s: 1.0 / float(fam(np.array([s]))[4][0]), z0, zm, epsabs=0, epsrel=1e-12, limit=400)
    for n in (n0, 4 * n0):
        z = gen.vgrid(gridk, z0, zm, n)
        prof = fam(z)
        q0 = np.ones((ny, nx)) * 2.0
        _, conc, _ = solve.S()(q0, z, prof, (nx * dx, ny * dy), n, modes=(nx, ny), halo=0.0, precision="double", srf_bg_conc=1.5)
        R = (1.5 - float(np.mean(conc))) / 2.0
        errs.append(abs(R - exact) / exact)
    ratio = errs[0] / errs[1] if errs[1] > 0 else float("inf")
    viol = []
    if errs[1] > 1e-12 and ratio < 2.5:
        viol.append({"what": "resistance_does_not_converge_under_refinement", "errors": errs, "ratio": ratio, "family": fam.d, "grid": gridk, "n0": n0})
    return {"evals": 2, "nontrivial": True, "sig": f"refine|{case['idx']}", "buckets": {f"refine_grid:{gridk}": 1, f"refine_K:{fam.d['K']}": 1},
            "resid": {"resistance_refinement_ratio_min_inverse": 1.0 / ratio if ratio > 0 else 0.0, "resistance_err_fine": errs[1]},
            "counters": {"solver_calls": 2, "quadratures": 1}, "violations": viol,
            "sample": {"family": fam.d, "grid": gridk, "n0": n0, "errors": errs, "ratio": ratio}}
