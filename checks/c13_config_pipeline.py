"""C13 - the config-driven run equals the explicit wind -> profiles -> source -> solver pipeline.

Reference-model monitor: a re-assembly of the documented low-level pipeline in
the harness (calling the real low-level functions) next to every observed
run_bldfm_single call; recording spies on the four callables bldfm.interface
references prove the real path was taken and expose the arguments passed.
"""

ID = "C13"
LEVEL = "exploration"
RULE = (
    "seeded random configurations over closures x precisions x footprint/dispersion x analytic (every closure) x default/explicit halo and modes "
    "x output_levels/full_output/default level x {z0 only, ustar only, both} x scalar/list forcing (1-4 steps) x 1-3 towers with "
    "different heights and lat/lon offsets x every time index x {ideal source with shape and src_loc, user-supplied flux}; each (tower, "
    "step) run is compared bit for bit with the hand-assembled pipeline and its metadata with the step / tower; the dict is also "
    "dumped to YAML and re-loaded; each configuration is followed IN THE SAME PROCESS by four variants on the same grid (other src_loc, default src_loc, "
    "other closure, other tower heights).  non-trivial = configuration with >= 2 (tower, step) runs or non-default options; distinct = distinct "
    "configuration idx"
)
ASSUMPTIONS = [
    "the documented pipeline: z0 takes precedence over ustar; levels = output_levels | range(nz+1) if full_output | nz",
    "both sides execute the same arithmetic, so equality is bitwise (NaNs compare equal)",
]
MIN_NONTRIVIAL = {"quick": 60, "thorough": 3200}
TIMEOUT = {"quick": 900, "thorough": 7000}


def cases(tier, seed):
    n = 96 if tier == "quick" else 19200
    return [{"seed": seed, "idx": i} for i in range(n)]


def json_plain(o):
    """tuples -> lists etc., the way a YAML round trip sees a dictionary"""
    import yaml

    return yaml.safe_load(yaml.safe_dump(o))


def make_config(rng):
    import math

    nx, ny = int(rng.integers(4, 13)) * 2, int(rng.integers(4, 13)) * 2
    xmax, ymax = float(nx * rng.uniform(4, 20)), float(ny * rng.uniform(4, 20))
    nz = int(rng.integers(3, 17))
    closure = str(rng.choice(["MOST", "MOSTM", "CONSTANT"]))
    nt = int(rng.integers(1, 4))
    ns = int(rng.choice([1, 1, 2, 3, 4]))
    ref_lat, ref_lon = float(rng.uniform(-60, 60)), float(rng.uniform(-170, 170))
    zref = rng.random()
    if zref < 0.08:      # a reference origin on the equator / the Greenwich meridian / both (a coordinate that is exactly zero)
        ref_lat = 0.0
    elif zref < 0.16:
        ref_lon = 0.0
    elif zref < 0.2:
        ref_lat, ref_lon = 0.0, 0.0
    elif zref < 0.28:   # a few metres west of the Greenwich meridian / of the antimeridian: the towers lie across it
        ref_lon = float(rng.choice([-10 ** rng.uniform(-6, -3.5), 180.0 - 10 ** rng.uniform(-6, -3.5)]))
    R = 6_371_000.0
    towers = []
    nt_seed = int(zref * 1e6)
    for k in range(nt):
        x, y = float(rng.uniform(0, xmax)), float(rng.uniform(0, ymax))
        if rng.random() < 0.1:   # a tower well outside the flux map (beyond the default halo width in one direction)
            x, y = float(rng.choice([-1.4, 2.6]) * xmax), float(rng.uniform(-0.5, 1.5) * ymax)
        # (one configuration in five names its towers the way site codes and run ids look: strings that read as numbers, exponent
        # forms without a dot, YAML 1.1 truth words, dates - yaml.safe_dump quotes what its own loader would misread)
        odd_names = ["4e2", "12E1", "007", "1_000", "yes", "No", "on", "null", "~", "2024-06-01", "0x1F", "1:30", ".5", "+3"]
        towers.append({"name": (f"{odd_names[(k * 5 + nt_seed) % len(odd_names)]}" if nt_seed % 5 == 0 else f"tw{k}_{int(rng.integers(100))}"), "lat": ref_lat + math.degrees(y / R),
                       "lon": ref_lon + math.degrees(x / (R * math.cos(math.radians(ref_lat)))), "z_m": float(rng.uniform(2, 12))})
    dom = {"nx": nx, "ny": ny, "xmax": xmax, "ymax": ymax, "nz": nz, "ref_lat": ref_lat, "ref_lon": ref_lon}
    if rng.random() < 0.6:
        dom["modes"] = [int(rng.integers(2, nx // 2 + 1)) * 2, int(rng.integers(2, ny // 2 + 1)) * 2] if rng.random() < 0.5 else [nx, ny]
    hk = str(rng.choice(["default", "zero", "explicit"]))
    if hk == "zero":
        dom["halo"] = 0.0
    elif hk == "explicit":
        dom["halo"] = float(rng.uniform(0.3, 2.5) * max(xmax / nx, ymax / ny))
    if hk == "explicit" and "modes" in dom and dom["modes"] != [nx, ny]:
        # truncated modes need the padded size's parity: keep the halo a whole number of cells on both axes -> pad even
        del dom["modes"]
    if hk == "zero" and rng.random() < 0.3:
        # a mode request above the grid along one axis and below it along the other (the solver's rule for such a request is its own;
        # the single run must hand the configured pair through as it is)
        over_x = bool(rng.random() < 0.5)
        big, small = (nx if over_x else ny) + 2 * int(rng.integers(1, 30)), int(rng.integers(1, (ny if over_x else nx) // 2)) * 2
        dom["modes"] = [big, small] if over_x else [small, big]
    lk = str(rng.choice(["default", "output_levels", "full_output", "both_options"]))
    if lk in ("output_levels", "both_options"):
        k = int(rng.integers(1, min(4, nz) + 1))
        dom["output_levels"] = sorted(int(i) for i in rng.choice(nz + 1, size=k, replace=False))
        if rng.random() < 0.5:
            dom["output_levels"] = [int(i) for i in rng.permutation(dom["output_levels"])]
        if lk == "both_options":   # explicit levels added to a configuration that also asks for the full column: the explicit list wins
            dom["full_output"] = True
        if rng.random() < 0.3:
            # a node above the measurement node: the column continues to twice the tower height and has at least nz + 2 nodes whenever the
            # roughness length is below 0.3 z_m (the mapped coordinate reaches 2 z_m after more than n steps); node nz + 1 always exists
            dom["output_levels"] = dom["output_levels"] + [nz + 1]
    elif lk == "full_output":
        dom["full_output"] = True
    fk = str(rng.choice(["ustar", "z0", "both"]))
    if closure == "MOST" and rng.random() < 0.25:
        # the one-and-a-half order closure (driven by the friction velocity; its turbulent kinetic energy is left to the documented default)
        closure, fk = "OAAHOC", "ustar"
    listy = ns > 1

    def series(lo, hi):
        return [float(rng.uniform(lo, hi)) for _ in range(ns)] if (listy and rng.random() < 0.7) else float(rng.uniform(lo, hi))

    met = {"wind_speed": series(1.5, 8.0), "wind_dir": series(0, 360), "mol": series(30, 500) if rng.random() < 0.5 else series(-500, -30)}
    if listy and not any(isinstance(v, list) for v in met.values()):
        met["wind_dir"] = [float(rng.uniform(0, 360)) for _ in range(ns)]
    if fk in ("ustar", "both"):
        met["ustar"] = series(0.2, 0.6)
    if fk in ("z0", "both"):
        met["z0"] = float(rng.uniform(0.01, 0.2))
        zk = rng.random()
        if zk < 0.15:      # open water, ice, sand: fractions of a millimetre
            met["z0"] = float(10 ** rng.uniform(-5, -3))
        elif zk < 0.3:     # tall forest under tall towers: metres
            for tw_ in towers:
                tw_["z_m"] = float(rng.uniform(12, 45))
            met["z0"] = float(rng.uniform(2.05, 0.24 * min(tw_["z_m"] for tw_ in towers)))
    # keep the configuration valid: the roughness length derived from ustar must stay below every tower's height
    if "ustar" in met and "z0" not in met:
        import math as _m
        from vlib import gen as _g

        def at(v, i):
            return v[i] if isinstance(v, list) else v

        for i in range(ns):
            for tw_ in towers:
                z0d = tw_["z_m"] * _m.exp(-0.4 * at(met["wind_speed"], i) / at(met["ustar"], i) + float(_g.psi_m(tw_["z_m"] / at(met["mol"], i))))
                if not z0d < 0.3 * tw_["z_m"]:
                    met["mol"] = -150.0 if not isinstance(met["mol"], list) else [-150.0 - 5 * k for k in range(ns)]
                    met["wind_speed"] = [max(w, 3.0) for w in met["wind_speed"]] if isinstance(met["wind_speed"], list) else max(met["wind_speed"], 3.0)
                    met["ustar"] = [min(u_, 0.3) for u_ in met["ustar"]] if isinstance(met["ustar"], list) else min(met["ustar"], 0.3)
    if rng.random() < 0.5:
        n_eff = max([len(v) for v in met.values() if isinstance(v, list)] or [1])
        met["timestamps"] = [f"2024-06-{d + 1:02d}T12:00" for d in range(n_eff)]
        tk_ = rng.random()
        if tk_ < 0.2:      # record numbers counted from one
            met["timestamps"] = [d + 1 for d in range(n_eff)]
        elif tk_ < 0.4:    # integer labels that are a permutation of the positions / hours of the day
            met["timestamps"] = [int(v) for v in rng.permutation(n_eff)] if rng.random() < 0.5 else [int(v) for v in rng.permutation(24)[:n_eff]]
        elif tk_ < 0.55:   # date-times / dates as PyYAML reads an unquoted 2024-06-01T12:00:00 or 2024-06-01 (and writes them back)
            import datetime as _dt

            met["timestamps"] = [_dt.datetime(2024, 6, d + 1, 12, 30, 0) for d in range(n_eff)] if tk_ < 0.5 else [_dt.date(2024, 6, d + 1) for d in range(n_eff)]
    fp = bool(rng.random() < 0.6)
    sol = {"closure": closure, "precision": str(rng.choice(["single", "double"])), "footprint": fp,
           "surface_flux_shape": str(rng.choice(["diamond", "circle", "point"]))}
    if rng.random() < (0.5 if closure == "CONSTANT" else 0.15):
        # with a similarity closure the closed form is evaluated with the top-node values of the configured closure's profiles - by the
        # single run exactly as by the pipeline called by hand
        sol["analytic"] = True
    if rng.random() < 0.4:
        sol["src_loc"] = [float(rng.uniform(0, xmax)), float(rng.uniform(0, ymax))]
    raw = {"domain": dom, "towers": towers, "met": met, "solver": sol}
    if rng.random() < 0.4:
        raw["output"] = {"format": "netcdf", "directory": str(rng.choice(["results/spring campaign", "./out", "out", "../shared/out", "/data/bldfm/out"]))}
    return raw, dict(halo=hk, levels=lk, forcing=fk, steps=ns, towers=nt, closure=closure, footprint=fp, analytic=bool(sol.get("analytic")),
                     precision=sol["precision"], modes=("default" if "modes" not in dom else "one_axis_over" if (dom["modes"][0] > nx) != (dom["modes"][1] > ny) else "explicit"),
                     src_loc="src_loc" in sol)


def variants(raw, rng):
    """Configurations that share the grid and domain of `raw` and differ in one solver/met option each (run in the same process)."""
    import copy

    out = []
    v = copy.deepcopy(raw)
    v["solver"]["src_loc"] = [float(rng.uniform(0, raw["domain"]["xmax"])), float(rng.uniform(0, raw["domain"]["ymax"]))]
    v["solver"]["footprint"] = False
    out.append(("src_loc", v))
    v = copy.deepcopy(raw)
    v["solver"].pop("src_loc", None)
    v["solver"]["footprint"] = False
    v["solver"]["surface_flux_shape"] = raw["solver"].get("surface_flux_shape", "diamond")
    out.append(("src_loc_default", v))
    v = copy.deepcopy(raw)
    v["solver"]["closure"] = "MOST" if raw["solver"]["closure"] != "MOST" else "MOSTM"
    v["solver"].pop("analytic", None)
    out.append(("closure", v))
    # configurations that leave optional sections out (documented defaults: MOST, single precision, dispersion, diamond source);
    # twice in a row - the first one is varied in place by its user (end of run_case) before the second is parsed
    for lab in ("no_solver_section", "no_solver_section_again", "partial_solver_section"):
        v = copy.deepcopy(raw)
        v.pop("solver", None)
        v.pop("parallel", None)
        if lab == "partial_solver_section":
            v["solver"] = {"surface_flux_shape": "circle"}
        out.append((lab, v))
    v = copy.deepcopy(raw)
    for t in v["towers"]:
        t["z_m"] = float(t["z_m"] * 1.37)
    out.append(("tower_height", v))
    return out


def run_case(case):
    import math
    import os

    import numpy as np
    import yaml
    import bldfm
    import bldfm.interface as iface
    from bldfm.config_parser import parse_config_dict, load_config
    from bldfm.utils import compute_wind_fields, ideal_source
    from bldfm.pbl_model import vertical_profiles
    from bldfm.solver import steady_state_transport_solver
    from vlib import gen

    rng = gen.rng_for(case["seed"], "C13", case["idx"])
    if "_raw" in case:
        raw, desc = case["_raw"], case["_desc"]
    else:
        raw, desc = make_config(rng)
    viol = []
    counters = {"single_runs": 0, "spy_wind": 0, "spy_profiles": 0, "spy_source": 0, "spy_solver": 0, "yaml_roundtrips": 0, "bitwise_equal_fields": 0}
    import copy

    raw_given = raw
    raw = copy.deepcopy(raw_given)  # the oracle works from the numbers as configured, whatever the run does to its own objects
    try:
        cfg = parse_config_dict(raw_given)
        cfg_parsed = copy.deepcopy(cfg)
        moved = None
        if rng.random() < 0.12:
            # the tower's local coordinates set by the user after the configuration was built (a mast that was moved, a position known in
            # metres only): the run takes the measurement point from the tower's x, y as they are
            t_ = cfg.towers[int(rng.integers(len(cfg.towers)))]
            t_.x, t_.y = float(rng.uniform(0.1, 0.9) * cfg.domain.xmax), float(rng.uniform(0.1, 0.9) * cfg.domain.ymax)
            moved = t_.name
        cfg_before = copy.deepcopy(cfg)
    except Exception as e:  # noqa
        return {"harness_error": f"generated configuration rejected: {e!r} {raw}"}
    # YAML == dict
    # the file lies where users keep such files: in the working directory, in a sub-folder (with a blank in its name) addressed relatively,
    # or somewhere else addressed absolutely - what it says does not depend on where it lies
    where = ["cwd", "subfolder_relative", "absolute", "pathlib"][case["idx"] % 4]
    if where == "cwd":
        p = f"c13_{case['idx']}.yaml"
    else:
        os.makedirs("site configs", exist_ok=True)
        p = os.path.join("site configs", f"c13_{case['idx']}.yaml")
        if where != "subfolder_relative":
            p = os.path.abspath(p)
    merge = bool(case["idx"] % 5 == 3 and len(raw["towers"]) >= 1)
    with open(p, "w") as f:
        if merge:
            # the same content written the way people write such files by hand: shared values under an anchor, merged into the
            # sections that use them (standard YAML 1.1 merge keys, which yaml.safe_load resolves)
            dom_ = dict(raw["domain"])
            shared = {k_: dom_.pop(k_) for k_ in ("nx", "ny", "nz")}
            tw_ = [dict(t_) for t_ in raw["towers"]]
            zshared = tw_[0]["z_m"]
            text = "grid_defaults: &grid " + yaml.safe_dump(shared, default_flow_style=True).strip() + "\n"
            text += "tower_defaults: &tdef {z_m: " + repr(float(zshared)) + "}\n"
            doc = {k_: v_ for k_, v_ in raw.items() if k_ not in ("domain", "towers")}
            text += yaml.safe_dump(doc)
            text += "domain:\n  <<: *grid\n" + "".join("  " + l_ + "\n" for l_ in yaml.safe_dump(dom_).splitlines())
            text += "towers:\n"
            for t_ in tw_:
                same_ = t_["z_m"] == zshared
                body = {k_: v_ for k_, v_ in t_.items() if not (same_ and k_ == "z_m")}
                lines_ = yaml.safe_dump(body).splitlines()
                text += ("  - <<: *tdef\n" if same_ else "  - " + lines_.pop(0) + "\n") + "".join("    " + l_ + "\n" for l_ in lines_)
            f.write(text)
            counters["yaml_files_with_anchors_and_merge_keys"] = counters.get("yaml_files_with_anchors_and_merge_keys", 0) + 1
        else:
            yaml.safe_dump(raw, f)
    if merge:
        # (the hand-written text must say what the dictionary says - checked with the YAML library itself, not with the package)
        chk_ = yaml.safe_load(open(p))
        chk_.pop("grid_defaults", None), chk_.pop("tower_defaults", None)
        if chk_ != json_plain(raw):
            return {"harness_error": "hand-written YAML with merge keys does not reproduce the dictionary"}
    try:
        if where == "pathlib":
            import pathlib

            cfg_y = load_config(pathlib.Path(p))
        else:
            cfg_y = load_config(p)
    except Exception as ex_:  # noqa - the file says what the accepted dictionary says
        cfg_y = None
        viol.append({"what": "yaml_file_rejected_although_the_dictionary_is_accepted", "exc": f"{type(ex_).__name__}: {str(ex_)[:200]}", "merge_keys": merge, "where": where, "config": raw})
    os.unlink(p)
    counters["yaml_roundtrips"] += 1
    if cfg_y is not None and cfg_y != cfg_parsed:
        viol.append({"what": "yaml_and_dict_parse_differently", "config": raw})

    # recording spies on the callables the interface module references
    trace = []
    real = {n: getattr(iface, n) for n in ("compute_wind_fields", "vertical_profiles", "ideal_source", "steady_state_transport_solver")}

    def spy(name):
        def w(*a, **k):
            trace.append((name, a, k))
            counters[{"compute_wind_fields": "spy_wind", "vertical_profiles": "spy_profiles", "ideal_source": "spy_source",
                      "steady_state_transport_solver": "spy_solver"}[name]] += 1
            return real[name](*a, **k)
        return w

    for n in real:
        setattr(iface, n, spy(n))
    try:
        user_flux = None
        if rng.random() < 0.35:
            user_flux = rng.normal(size=(cfg.domain.ny, cfg.domain.nx))
            if "modes" not in raw["domain"] and rng.random() < 0.4:
                # a flux map finer than the configured nx, ny (the grid is the map's own)
                user_flux = rng.normal(size=(2 * cfg.domain.ny, 2 * cfg.domain.nx))
        nsteps = cfg.met.n_timesteps
        for tw0 in cfg.towers:
            tw, copied = tw0, False
            if rng.random() < 0.15:
                # the tower handed to the run is the caller's own object: a copy of a configured tower with the same name and other numbers
                # (a what-if height, a mast moved a few metres) - the run must use the tower it was given
                import dataclasses as _dc2

                znew = float(tw0.z_m * rng.uniform(0.85, 1.5))
                # (the copy must still be a valid set-up: under a friction-velocity forcing the roughness length derived for the new height
                # has to stay well below it - in stable air it grows with the height; otherwise only the position differs)
                if "ustar" in raw["met"] and "z0" not in raw["met"]:
                    import math as _m3
                    from vlib import gen as _g3

                    def _at(v_, i_):
                        return v_[i_] if isinstance(v_, list) else v_

                    for i_ in range(nsteps):
                        z0d_ = znew * _m3.exp(-0.4 * _at(raw["met"]["wind_speed"], i_) / _at(raw["met"]["ustar"], i_) + float(_g3.psi_m(znew / _at(raw["met"]["mol"], i_))))
                        if not z0d_ < 0.3 * znew:
                            znew = float(tw0.z_m)
                            break
                elif "z0" in raw["met"] and not raw["met"]["z0"] < 0.28 * znew:
                    znew = float(tw0.z_m)
                tw = _dc2.replace(tw0, z_m=znew, x=float(tw0.x + rng.uniform(-30, 30)), y=float(tw0.y + rng.uniform(-30, 30)))
                copied = True
                counters["towers_given_as_modified_copies"] = counters.get("towers_given_as_modified_copies", 0) + 1
            for i in range(nsteps):
                trace.clear()
                with np.errstate(all="ignore"):
                    res = bldfm.run_bldfm_single(cfg, tw, met_index=i, surface_flux=user_flux)
                counters["single_runs"] += 1
                # ---------------- the documented pipeline, by hand
                dom = cfg.domain
                rsol = raw.get("solver") or {}
                sol_closure = rsol.get("closure", "MOST")
                sol_src_loc = tuple(rsol["src_loc"]) if rsol.get("src_loc") is not None else None
                sol_shape = rsol.get("surface_flux_shape", "diamond")
                step = {k: (v[i] if isinstance(v, list) else v) for k, v in raw["met"].items() if k != "timestamps"}
                ws, wd = step.get("wind_speed", 5.0), step.get("wind_dir", 270.0)
                mol = step.get("mol", 1e9)
                u, v = compute_wind_fields(ws, wd)
                with np.errstate(all="ignore"):
                    if step.get("z0") is not None:
                        z, prof = vertical_profiles(n=dom.nz, meas_height=tw.z_m, wind=(u, v), z0=step["z0"], mol=mol, closure=sol_closure)
                    else:
                        z, prof = vertical_profiles(n=dom.nz, meas_height=tw.z_m, wind=(u, v), ustar=step["ustar"], mol=mol, closure=sol_closure)
                    srf = user_flux if user_flux is not None else ideal_source((dom.nx, dom.ny), (dom.xmax, dom.ymax), src_loc=sol_src_loc,
                                                                               shape=sol_shape)
                    if raw["domain"].get("output_levels"):
                        levels = raw["domain"]["output_levels"]
                    elif raw["domain"].get("full_output"):
                        levels = list(range(dom.nz + 1))
                    else:
                        levels = dom.nz
                    exp = steady_state_transport_solver(srf, z, prof, (dom.xmax, dom.ymax), levels,
                                                        modes=tuple(raw["domain"].get("modes", (512, 512))), meas_pt=(tw.x, tw.y),
                                                        footprint=bool(rsol.get("footprint", False)),
                                                        analytic=bool(rsol.get("analytic", False)),
                                                        halo=raw["domain"].get("halo"), precision=rsol.get("precision", "single"))
                ctx = dict(tower=tw.name, step=i, options=desc)
                # the tower's local coordinates, from the raw latitude / longitude by the documented equirectangular map
                rt = [t for t in raw["towers"] if t["name"] == tw.name][0]
                rlat, rlon = raw["domain"]["ref_lat"], raw["domain"]["ref_lon"]
                x_own = 6_371_000.0 * math.radians(rt["lon"] - rlon) * math.cos(math.radians(rlat))
                y_own = 6_371_000.0 * math.radians(rt["lat"] - rlat)
                counters["tower_xy_checked"] = counters.get("tower_xy_checked", 0) + 1
                if tw.name != moved and not copied and not (abs(tw.x - x_own) <= 1e-6 and abs(tw.y - y_own) <= 1e-6):
                    viol.append(dict(what="tower_local_coordinates", got=(tw.x, tw.y), expected=(x_own, y_own), reference=(rlat, rlon), **ctx))
                names = [t[0] for t in trace]
                if names.count("steady_state_transport_solver") != 1 or "vertical_profiles" not in names or "compute_wind_fields" not in names:
                    viol.append(dict(what="pipeline_not_taken", trace=names, **ctx))
                same = True
                for nm, a, b_ in (("X", res["grid"][0], exp[0][0]), ("Y", res["grid"][1], exp[0][1]), ("Z", res["grid"][2], exp[0][2]),
                                  ("conc", res["conc"], exp[1]), ("flx", res["flx"], exp[2])):
                    a, b_ = np.asarray(a), np.asarray(b_)
                    if a.shape != b_.shape or a.dtype != b_.dtype or not np.array_equal(a, b_, equal_nan=True):
                        same = False
                        viol.append(dict(what="single_run_differs_from_pipeline", field=nm, shapes=(a.shape, b_.shape),
                                         maxdiff=float(np.nanmax(np.abs(a - b_))) if a.shape == b_.shape else None, **ctx))
                    else:
                        counters["bitwise_equal_fields"] += 1
                ts = raw["met"]["timestamps"][i] if "timestamps" in raw["met"] else i
                exp_params = {"ustar": step.get("ustar"), "mol": mol, "wind_speed": ws, "wind_dir": wd}
                if step.get("z0") is not None:
                    exp_params["z0"] = step["z0"]
                exp_params["timestamp"] = ts
                if res.get("timestamp") != ts or res.get("tower_name") != tw.name or tuple(res.get("tower_xy", ())) != (tw.x, tw.y) \
                        or res.get("params") != exp_params:
                    viol.append(dict(what="result_metadata", got={k: res.get(k) for k in ("timestamp", "tower_name", "tower_xy", "params")},
                                     expected=dict(timestamp=ts, tower_name=tw.name, tower_xy=(tw.x, tw.y), params=exp_params), **ctx))
    finally:
        for n, fn in real.items():
            setattr(iface, n, fn)
    if cfg != cfg_before:
        viol.append({"what": "run_mutates_the_configuration", "before": repr(cfg_before.domain)[:300], "after": repr(cfg.domain)[:300], "options": desc})
    # ... and now the user varies this parsed configuration in place (a sweep written as "cfg.solver.footprint = True"): that is the
    # user's own object; configurations parsed later must not know about it
    try:
        cfg.solver.footprint = not cfg.solver.footprint
        cfg.solver.closure = "CONSTANT" if cfg.solver.closure != "CONSTANT" else "MOSTM"
        cfg.solver.precision = "double" if cfg.solver.precision == "single" else "single"
        cfg.solver.surface_flux_shape = "point"
        cfg.parallel.use_cache = not cfg.parallel.use_cache
        cfg.output.directory = "./elsewhere"
    except Exception:
        pass
    inc = counters["spy_solver"] == 0
    b = {f"{k}:{v}": 1 for k, v in desc.items()}
    b["user_flux" if user_flux is not None else "ideal_source"] = 1
    nruns = len(cfg.towers) * nsteps
    out = {"evals": counters["single_runs"], "nontrivial": nruns >= 2 or desc["halo"] != "default" or desc["levels"] != "default",
           "sig": f"{case['idx']}", "buckets": b, "counters": counters, "violations": viol,
           "sample": {"config": raw, "runs": nruns}}
    if inc:
        out["harness_error"] = "spies never reached: run_bldfm_single did not go through bldfm.interface's callables"
    # the same process now runs configurations that share this grid and differ in one option each
    if "_raw" not in case and not out.get("harness_error"):
        for label, vraw in variants(raw, gen.rng_for(case["seed"], "C13v", case["idx"])):
            sub = run_case({"seed": case["seed"], "idx": case["idx"], "_raw": vraw, "_desc": dict(desc, variant=label)})
            if sub.get("harness_error"):
                continue
            out["evals"] += sub["evals"]
            for k_, v_ in sub["counters"].items():
                out["counters"][k_] = out["counters"].get(k_, 0) + v_
            out["counters"]["configurations_in_one_process"] = out["counters"].get("configurations_in_one_process", 1) + 1
            out["buckets"][f"variant:{label}"] = 1
            out["violations"].extend(dict(v_, after_configuration_variant=label) for v_ in sub["violations"])
    return out
