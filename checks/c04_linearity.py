"""C04 - concentration and flux are linear in (surface flux, background).

Relation monitor over groups of three/two recorded calls on the real solver.
"""

ID = "C04"
LEVEL = "exploration"
RULE = (
    "seeded random set-ups inside the conditioning guard x pairs of sources of all classes (sign-changing) x coefficients a, b in "
    "+-[1e-3, 1e3] x backgrounds in +-[0, 1e3] x levels x halos x mode counts x numeric/analytic x both precisions; per case: "
    "superposition, flux independent of the background, background adds a uniform offset, footprint mode independent of the values "
    "of the surface-flux array (zeros, random, 1e300, sign-changing, inf/nan) bit for bit.  non-trivial = q1, q2 linearly independent "
    "and a*b != 0; distinct = distinct set-up idx"
)
ASSUMPTIONS = [
    "superposition compared relative to |a| max|S1| + |b| max|S2| with the conditioning-aware tolerance max(1e-9, 5000 eps e^G)",
]
MIN_NONTRIVIAL = {"quick": 120, "thorough": 8000}
TIMEOUT = {"quick": 900, "thorough": 7000}


def cases(tier, seed):
    n = 192 if tier == "quick" else 48000
    return [{"seed": seed, "idx": i} for i in range(n)]


def run_case(case):
    import numpy as np
    from vlib import gen, solve

    rng = gen.rng_for(case["seed"], "C04", case["idx"])
    St, nskip = gen.draw_setup(rng, even=rng.random() < 0.85)
    if St is None:
        return {"evals": 0, "nontrivial": False, "skipped": "no draw inside the conditioning guard"}
    nx, ny = St["nx"], St["ny"]
    nz = len(St["z"])
    prec = "double" if rng.random() < 0.7 else "single"
    tol = solve.tol(prec, St["G"], cr=St["cr"])
    levels, lkind = solve.pick_levels(rng, nz)
    nl = solve.nlev(levels)
    analytic = St["pdesc"]["kind"] == "constant" and rng.random() < 0.4
    viol, resid = [], {}
    counters = {"solver_calls": 0, "flux_bitwise_independent_of_bg": 0, "footprint_bitwise_independent_of_values": 0}
    desc = gen.describe(St)
    mp = (0.0, 0.0) if rng.random() < 0.5 else (float(rng.integers(nx)) * St["dx"], float(rng.integers(ny)) * St["dy"])

    def run(q, bg, **kw):
        counters["solver_calls"] += 1
        _, c, f = solve.solve(St, q, levels, srf_bg_conc=bg, precision=prec, analytic=analytic, meas_pt=mp, **kw)
        return solve.as3d(c, nl), solve.as3d(f, nl)

    def coef():
        return float(rng.choice([-1, 1]) * 10 ** rng.uniform(-3, 3))

    q1, k1 = gen.make_source(rng, ny, nx)
    q2, k2 = gen.make_source(rng, ny, nx)
    a, b = coef(), coef()
    if case["idx"] % 7 == 3:
        # one operand exactly uniform (the same non-zero value in every cell)
        q2, k2 = np.full((ny, nx), float(rng.choice([-1, 1]) * 10 ** rng.uniform(-2, 2))), "uniform"
    elif case["idx"] % 7 == 5:
        # two whole-number fields whose combination is exactly uniform although neither operand is
        q1, k1 = rng.integers(-4, 9, size=(ny, nx)).astype(float), "whole_numbers"
        q2, k2 = 5.0 - q1, "complement_to_uniform"
        a = b = float(2.0 ** int(rng.integers(-3, 4)))
    c1, c2 = [float(rng.choice([0.0, rng.choice([-1, 1]) * 10 ** rng.uniform(-2, 3)])) for _ in range(2)]
    p1, f1 = run(q1, c1)
    p2, f2 = run(q2, c2)
    p3, f3 = run(a * q1 + b * q2, a * c1 + b * c2)
    s1 = solve.surface_scales(St, q1, precision=prec, analytic=analytic, meas_pt=mp)
    s2 = solve.surface_scales(St, q2, precision=prec, analytic=analytic, meas_pt=mp)
    counters["solver_calls"] += 2
    for j, (nm, x3, x1, x2) in enumerate((("conc", p3, p1, p2), ("flx", f3, f1, f2))):
        scale = abs(a) * max(float(np.max(np.abs(x1))), s1[j]) + abs(b) * max(float(np.max(np.abs(x2))), s2[j]) or 1.0
        e = float(np.max(np.abs(x3 - (a * x1 + b * x2)))) / scale
        resid[f"superposition_{nm}_{prec}"] = e
        if not e <= tol:
            viol.append({"what": "superposition_fails", "field": nm, "rel": e, "tol": tol, "a": a, "b": b, "c1": c1, "c2": c2,
                         "precision": prec, "analytic": analytic, "levels": levels, "setup": desc})
    # the background never changes the flux and only offsets the concentration
    bg = float(rng.choice([-1, 1]) * 10 ** rng.uniform(-1, 3))
    bg_arg = bg
    if case["idx"] % 3 == 0:  # a background given as a whole number (Python int / numpy integer): 400 ppm
        bg = float(int(bg) or 7)
        bg_arg = [int, np.int64, np.int32][(case["idx"] // 3) % 3](bg)
        counters["integer_typed_background"] = 1
    p0, f0 = run(q1, 0.0)
    pb, fb = run(q1, bg_arg)
    if np.array_equal(f0, fb):
        counters["flux_bitwise_independent_of_bg"] += 1
    e = float(np.max(np.abs(fb - f0))) / (float(np.max(np.abs(f0))) or 1.0)
    resid[f"flux_vs_bg_{prec}"] = e
    if not e <= 1e-12:
        viol.append({"what": "flux_depends_on_background", "rel": e, "bg": bg, "precision": prec, "analytic": analytic, "setup": desc})
    off = pb - p0 - bg
    e = float(np.max(np.abs(off))) / (abs(bg) + float(np.max(np.abs(p0))))
    resid[f"bg_offset_{prec}"] = e
    if not e <= (1e-11 if prec == "double" else 5e-6):
        viol.append({"what": "background_is_not_a_uniform_offset", "rel": e, "bg": bg, "precision": prec, "analytic": analytic,
                     "spread": float(np.ptp(off)), "setup": desc})
    # the same in footprint mode: the background offsets the concentration Green's function uniformly and leaves the weights alone
    if case["idx"] % 2 == 0:
        pf0, ff0 = run(np.zeros((ny, nx)), 0.0, footprint=True)
        pfb, ffb = run(np.zeros((ny, nx)), bg_arg, footprint=True)
        counters["footprint_background_runs"] = counters.get("footprint_background_runs", 0) + 1
        eo = float(np.max(np.abs(pfb - pf0 - bg))) / (abs(bg) + float(np.max(np.abs(pf0))))
        ew = float(np.max(np.abs(ffb - ff0))) / (float(np.max(np.abs(ff0))) or 1.0)
        if not eo <= (1e-11 if prec == "double" else 5e-6):
            viol.append({"what": "background_is_not_a_uniform_offset", "mode": "footprint", "rel": eo, "bg": bg, "precision": prec, "analytic": analytic, "setup": desc})
        if not ew <= 1e-12:
            viol.append({"what": "flux_depends_on_background", "mode": "footprint", "rel": ew, "bg": bg, "precision": prec, "analytic": analytic, "setup": desc})
    # the zero source (a night-time step, a masked map): the linear map sends (0, bg) to a uniform bg and no flux, on the input grid
    pz, fz = run(np.zeros((ny, nx)), bg_arg)
    counters["zero_source_runs"] = counters.get("zero_source_runs", 0) + 1
    if pz.shape != (nl, ny, nx) or fz.shape != (nl, ny, nx):
        viol.append({"what": "zero_source_not_mapped_to_uniform_background", "shapes": (pz.shape, fz.shape), "expected": (nl, ny, nx), "bg": bg,
                     "precision": prec, "analytic": analytic, "setup": desc})
    else:
        ez = float(np.max(np.abs(pz - bg))) / (abs(bg) or 1.0)
        efz = float(np.max(np.abs(fz)))
        if not ez <= (1e-12 if prec == "double" else 1e-6) or not efz <= 1e-300:
            viol.append({"what": "zero_source_not_mapped_to_uniform_background", "conc_minus_bg_rel": ez, "max_abs_flux": efz, "bg": bg,
                         "precision": prec, "analytic": analytic, "setup": desc})
    # footprint mode: only the shape of the surface-flux array matters
    with np.errstate(all="ignore"):
        ref = run(np.zeros((ny, nx)), 0.0, footprint=True)
        variants = {"random": rng.normal(size=(ny, nx)), "huge": np.full((ny, nx), 1e300) * rng.choice([-1, 1], size=(ny, nx)),
                    "ones": np.ones((ny, nx)), "inf_nan": np.where(rng.random((ny, nx)) < 0.5, np.inf, np.nan), "int": np.arange(ny * nx).reshape(ny, nx)}
        for nm, q in variants.items():
            try:
                got = run(q, 0.0, footprint=True)
            except Exception as ex:  # noqa
                viol.append({"what": "footprint_mode_depends_on_source_values", "variant": nm, "exc": repr(ex)[:200], "setup": desc})
                continue
            if all(np.array_equal(x, y, equal_nan=False) for x, y in zip(got, ref)):
                counters["footprint_bitwise_independent_of_values"] += 1
            else:
                viol.append({"what": "footprint_mode_depends_on_source_values", "variant": nm, "precision": prec, "analytic": analytic,
                             "setup": desc})
    indep = np.linalg.matrix_rank(np.stack([q1.ravel(), q2.ravel()])) == 2
    bk = {f"prec:{prec}": 1, f"levels:{lkind}": 1, f"halo:{St['halo_class']}": 1, f"modes:{St['mode_class']}": 1,
          "analytic" if analytic else "numeric": 1, f"profiles:{St['pdesc'].get('closure', St['pdesc']['kind'])}": 1, gen.gbucket(St["G"]): 1,
          "recentred" if mp != (0.0, 0.0) else "meas_pt_origin": 1}
    return {"evals": 2 * nl + 2 + len(variants), "nontrivial": bool(indep), "sig": f"{case['idx']}", "buckets": bk, "resid": resid,
            "counters": counters, "violations": viol,
            "sample": {"setup": desc, "a": a, "b": b, "c1": c1, "c2": c2, "bg": bg, "sources": (k1, k2), "levels": levels, "precision": prec}}
