"""C01 - the solver converges to the exact advection-diffusion BVP for height-dependent profiles.

Reference-model monitor: per-mode transfer functions observed on the real solver
(unit-impulse source, halo=0) are compared with an independent Riccati
integration of the boundary-value problem (no shooting, no layer propagator).
"""

ID = "C01"
LEVEL = "exploration"
RULE = (
    "(i) closed-form smooth positive families {log-law, power-law, MOST+- wind} x {linear, power-law, MOST diffusivity} x anisotropy ax, ay in "
    "[0.3,3] x any wind direction x grids {uniform, geometric, exp-map} x n0 in {8,16,32} refined x4 (thorough also x16) x nx, ny in 6..12 "
    "x domains; every non-mean, off-Nyquist mode resolved on the coarsest grid (|T|dz^2/Kz <= 1) with shooting growth <= 18 is compared "
    "at bottom / interior / top levels.  Decision: E(n) <= 2 delta(n) at every level of refinement and E(4n) <= max(E(n)/2.5, 0.1 "
    "delta(4n)), delta = max dz_i/z_i.  (ii) the arrays produced by vertical_profiles(MOST/MOSTM/OAAHOC) on its own exp-mapped grid at n and 4n layers, continuous counterpart "
    "rebuilt from the returned z[0] and the harness's similarity formulas, top node per grid.  non-trivial = case with >= 4 qualifying modes; distinct = distinct case idx"
)
ASSUMPTIONS = [
    "oracle: SciPy DOP853 integration of the Riccati equation for the admittance and of d ln p/dz, rtol 1e-11; self-tested per shard on "
    "constant coefficients (else inconclusive)",
    "constants C=2, ratio 2.5, floor 0.1 delta calibrated on the pinned tree (DESIGN C01) and frozen",
]
MIN_NONTRIVIAL = {"quick": 100, "thorough": 4800}
TIMEOUT = {"quick": 1200, "thorough": 7000}
_selftest = {}


def cases(tier, seed):
    n = 192 if tier == "quick" else 6400
    out = [{"seed": seed, "idx": i, "deep": bool(tier == "thorough" and i % 8 == 0)} for i in range(n)]
    out += [{"seed": seed, "idx": i, "closure": True} for i in range(n // 4)]
    return out


def closure_case(case, rng, zm):
    """Arrays produced by vertical_profiles(MOST / MOSTM / OAAHOC) on its own exp-mapped grid; the continuous counterpart is rebuilt
    from the returned z[0] and the harness's similarity formulas; the top node (and with it the BVP) is taken per grid."""
    import math

    import numpy as np
    from bldfm.pbl_model import vertical_profiles
    from vlib import gen, solve, oracles

    S = solve.S()
    closure = str(rng.choice(["MOST", "MOSTM", "OAAHOC"]))
    ws = float(rng.uniform(2.0, 8.0))
    th = float(rng.uniform(0, 2 * np.pi))
    um, vm = ws * math.cos(th), ws * math.sin(th)
    ustar = float(ws * rng.uniform(0.08, 0.14))
    L = float(rng.choice([-1, 1]) * 10 ** rng.uniform(1.7, 3.5))
    tke = float(rng.uniform(0.5, 2.0))
    n0 = int(rng.choice([8, 16]))
    nx, ny = int(rng.integers(3, 6)) * 2, int(rng.integers(3, 6)) * 2
    dx = float(zm * rng.uniform(1.5, 6.0))
    dy = float(dx * rng.choice([0.6, 0.75, 1.5]))
    dom = (nx * dx, ny * dy)
    KX, KY, ok = oracles.mode_wavenumbers(nx, ny, dx, dy)
    kw = dict(ustar=ustar, mol=L, closure=closure)
    if closure == "OAAHOC":
        kw["tke"] = tke
    cl, cm, ch = 0.845, 0.0856, 0.204
    Es, deltas, good, kxs, kys = [], [], None, None, None
    q0 = np.zeros((ny, nx))
    q0[0, 0] = 1.0
    for mult in (1, 4):
        n = n0 * mult
        with np.errstate(all="ignore"):
            z, prof = vertical_profiles(n, zm, (um, vm), **kw)
        z = np.asarray(z, dtype=float)
        prof = tuple(np.asarray(p, dtype=float) for p in prof)
        if len(z) <= n or not np.all(np.isfinite(z)) or not (z[0] < 0.2 * zm) or z[0] < 1e-4 * zm:
            return {"evals": 0, "nontrivial": False, "skipped": "derived roughness length outside (1e-4, 0.2) z_m"}
        z0 = float(z[0])

        def fam(zz, z0=z0):
            zz = np.asarray(zz, dtype=float)
            if closure == "OAAHOC":
                U = ustar**2 / (cm * cl * math.sqrt(tke)) * np.log(zz / z0)
                K = ch * cl * zz * math.sqrt(tke)
            else:
                U = ustar / gen.KAPPA * (np.log(zz / z0) + gen.psi_m(zz / L))
                K = gen.KAPPA * ustar * zz / gen.phi_c(zz / L)
            uu, vv = U * um / ws, U * vm / ws
            if closure == "MOSTM":
                return (uu, vv, K * vm**2 / ws**2, K * um**2 / ws**2, K)
            return (uu, vv, K, K, K)

        if good is None:
            u_, v_, Kx_, Ky_, Kz_ = prof
            dz = np.diff(z)
            kxa, kya = KX[ok], KY[ok]
            T = -(Kx_[:-1, None] * kxa**2 + Ky_[:-1, None] * kya**2) - 1j * (u_[:-1, None] * kxa + v_[:-1, None] * kya)
            res = np.max(np.abs(T) * (dz**2 / Kz_[:-1])[:, None], axis=0)
            G = np.sum(np.sqrt(-T / Kz_[:-1, None]).real * dz[:, None], axis=0)
            good = (res <= 1.0) & (G <= 18.0)
            if int(good.sum()) < 4:
                return {"evals": 0, "nontrivial": False, "skipped": "fewer than 4 modes resolved on the coarsest grid"}
            kxs, kys = kxa[good], kya[good]
        lv = [0, n, len(z) - 1]  # surface, measurement height, top node
        ref = oracles.riccati_bvp(fam, kxs, kys, z0, float(z[-1]), z[lv])
        _, c, f = S(q0, z, prof, dom, lv, modes=(nx, ny), halo=0.0, precision="double")
        Hp = (np.fft.fft2(c, norm="forward") * (nx * ny))[:, ok][:, good]
        Hq = (np.fft.fft2(f, norm="forward") * (nx * ny))[:, ok][:, good]
        Ep = float(np.max(np.abs(Hp - ref[0]) / np.abs(ref[0][0])[None, :]))
        Eq = float(np.max(np.abs(Hq - ref[1])))
        Es.append((Ep, Eq))
        deltas.append(float(np.max(np.diff(z) / z[:-1])))
    viol, resid = [], {}
    ctx = dict(family={"closure": closure, "ws": ws, "theta": th, "ustar": ustar, "L": L, "tke": tke, "zm": zm}, grid="vertical_profiles", n0=n0,
               nx=nx, ny=ny, dx=dx, dy=dy, modes=int(good.sum()), errors=Es, deltas=deltas)
    for k, ((Ep, Eq), d) in enumerate(zip(Es, deltas)):
        resid["E_over_delta_conc_closure"] = max(resid.get("E_over_delta_conc_closure", 0.0), Ep / d)
        resid["E_over_delta_flux_closure"] = max(resid.get("E_over_delta_flux_closure", 0.0), Eq / d)
        if Ep > 2 * d or Eq > 2 * d:
            viol.append(dict(what="error_not_a_small_multiple_of_layer_thickness", refinement=k, E=(Ep, Eq), delta=d, **ctx))
    for nm, j in (("conc", 0), ("flux", 1)):
        a_, b_ = Es[0][j], Es[1][j]
        if b_ > max(a_ / 2.5, 0.1 * deltas[1]):
            viol.append(dict(what="error_does_not_shrink_with_layer_thickness", field=nm, coarse=a_, fine=b_, **ctx))
        if b_ > 0.1 * deltas[1] and a_ > 0:
            resid[f"fine_over_coarse_{nm}_closure"] = b_ / a_
    return {"evals": 2 * int(good.sum()) * 3 * 2, "nontrivial": True, "sig": f"closure|{case['idx']}",
            "buckets": {f"closure_arrays:{closure}": 1, f"n0:{n0}": 1}, "resid": resid,
            "counters": {"solver_calls": 2, "riccati_integrations": 2, "modes_compared": int(good.sum()), "vertical_profiles_calls": 2},
            "violations": viol, "sample": ctx}


def worker_init():
    from vlib import oracles

    _selftest["err"] = oracles.riccati_selftest()


def run_case(case):
    import numpy as np
    from vlib import gen, solve, oracles

    if "err" not in _selftest:
        worker_init()
    if not _selftest["err"] < 1e-9:
        return {"harness_error": f"oracle self-test failed: {_selftest['err']}"}
    rng = gen.rng_for(case["seed"], "C01", case["idx"])
    S = solve.S()
    zm = float(rng.uniform(2.0, 30.0))
    z0 = float(zm * 10 ** rng.uniform(-2.0, -0.7))
    for _ in range(30):
        fam = gen.Family.draw(rng, zm, z0)
        if fam.height_dependent and (fam.d["wind"] != "const" or (fam.d["K"] != "const" and case["idx"] % 5 == 1)):
            break  # (a uniform wind over a height-dependent diffusivity in a fifth of the cases)
    if case["idx"] % 12 == 7 and not case.get("closure"):
        # wind and along-x diffusivity exactly uniform with height, the other two diffusivities height-dependent
        fam.d.update(wind="const", veer=0.0, kx_const=True, ex=0.0, ey=float(rng.uniform(-0.3, 0.3)))
        if fam.d["K"] == "const":
            fam.d["K"] = "linear"
    if case["idx"] % 8 == 1 and not case.get("closure"):
        # wind exactly along a grid axis at every height (one wind component identically zero), no veering
        fam.d.update(theta=[0.0, 0.5 * np.pi, 0.0, np.pi][(case["idx"] // 8) % 4], veer=0.0)
    gridk = str(rng.choice(["uniform", "geometric", "expmap"]))
    n0 = int(rng.choice([8, 16, 32]))
    if case.get("closure"):
        return closure_case(case, rng, zm)
    nx, ny = int(rng.integers(3, 7)) * 2, int(rng.integers(3, 7)) * 2
    ztop = float(zm * rng.uniform(1.0, 2.0))
    dx = float(zm * rng.uniform(0.8, 6.0))
    ry = float(rng.choice([0.6, 0.75, 1.5, 1.8]))
    if case["idx"] % 3 == 0:
        # fine cells: the cell size is tuned so that the highest retained components reach the upper end of the stated range
        # (shooting growth 13 .. 18.5 on the coarsest grid, which must still resolve them: 32 layers)
        n0 = 32
        target = float(rng.uniform(15.5, 22.0))  # at the Nyquist corner; the compared (non-Nyquist) components reach about 0.85 of it
        zc0 = gen.vgrid(gridk, z0, ztop, n0)
        pr0 = fam(zc0)
        for _ in range(3):
            g_ = gen.growth(zc0, pr0, np.pi / dx, np.pi / (dx * ry))
            dx = float(dx * g_ / target)
    elif case["idx"] % 8 == 5:
        # regional domains (tens to thousands of kilometres): every retained component is long compared with the column
        dx = float(zm * 10 ** rng.uniform(2.5, 4.5))
    dy = float(dx * ry)
    dom = (nx * dx, ny * dy)
    KX, KY, ok = oracles.mode_wavenumbers(nx, ny, dom[0] / nx, dom[1] / ny)
    # preconditions per mode on the coarsest grid
    zc = gen.vgrid(gridk, z0, ztop, n0)
    u, v, Kx, Ky, Kz = fam(zc)
    dz = np.diff(zc)
    kxs, kys = KX[ok], KY[ok]
    T = -(Kx[:-1, None] * kxs**2 + Ky[:-1, None] * kys**2) - 1j * (u[:-1, None] * kxs + v[:-1, None] * kys)
    res = np.max(np.abs(T) * (dz**2 / Kz[:-1])[:, None], axis=0)
    G = np.sum(np.sqrt(-T / Kz[:-1, None]).real * dz[:, None], axis=0)
    good = (res <= 1.0) & (G <= 18.0)
    # drop conjugate duplicates (the response of -k is the conjugate of that of k)
    nmodes = int(good.sum())
    if nmodes < 4:
        return {"evals": 0, "nontrivial": False, "skipped": "fewer than 4 modes resolved on the coarsest grid",
                "counters": {"modes_skipped_by_precondition": int((~good).sum())}}
    kxs, kys = kxs[good], kys[good]
    fracs = (0.0, 0.5, 1.0)
    mults = (1, 4, 16) if case["deep"] and n0 <= 16 else (1, 4)
    zlev = None
    Es, deltas = [], []
    ref = None
    q0 = np.zeros((ny, nx))
    # a unit source in one cell: at the origin, or (half of the cases) in any other cell - its spectrum is then a phase ramp, not even in
    # either wavenumber, and every component of the response carries that phase
    j0, i0 = (0, 0) if case["idx"] % 2 == 0 else (int(rng.integers(ny)), int(rng.integers(nx)))
    q0[j0, i0] = 1.0
    ramp = np.exp(-2j * np.pi * (np.fft.fftfreq(nx, 1.0 / nx)[None, :] * i0 / nx + np.fft.fftfreq(ny, 1.0 / ny)[:, None] * j0 / ny))
    # half of the fine-cell cases (strongly damped components, three output levels) ask for single-precision output
    prec = "single" if case["idx"] % 6 == 3 else "double"
    allow = []
    for mult in mults:
        n = n0 * mult
        z = gen.vgrid(gridk, z0, ztop, n)
        prof = fam(z)
        lv = sorted({int(round(f * n)) for f in fracs})
        if zlev is None:
            zlev = z[lv]
            ref = oracles.riccati_bvp(fam, kxs, kys, z0, ztop, zlev)
        else:
            # the output heights must be the same physical heights on every grid
            lv = [int(np.argmin(np.abs(z - zz))) for zz in zlev]
            if np.max(np.abs(z[lv] - zlev)) > 1e-9 * ztop:
                return {"evals": 0, "nontrivial": False, "skipped": "refined grid does not contain the coarse output heights"}
        # the three heights are requested in rotated order (top, bottom, interior): a slice returned under the wrong label is an
        # O(1) error that no refinement removes
        rot = [2, 0, 1] if len(lv) == 3 else list(range(len(lv)))
        _, c, f = S(q0, z, prof, dom, [lv[i] for i in rot], modes=(nx, ny), halo=0.0, precision=prec)
        back = np.argsort(rot)
        c, f = np.asarray(c, dtype=float)[back], np.asarray(f, dtype=float)[back]
        # single precision stores the fields in 32 bits: a rounding of 6e-8 of the field maximum per cell, at most N times that in a
        # component of the (N-scaled) spectrum
        eps_store = 0.0 if prec == "double" else 4 * nx * ny * 6e-8
        allow.append((eps_store * float(np.max(np.abs(c))) / float(np.min(np.abs(ref[0][0]))), eps_store * float(np.max(np.abs(f)))))
        Hp = np.fft.fft2(c, norm="forward") * (nx * ny) / ramp
        Hq = np.fft.fft2(f, norm="forward") * (nx * ny) / ramp
        Hp, Hq = Hp[:, ok][:, good], Hq[:, ok][:, good]
        rp, rq = ref
        norm_p = np.abs(rp[0])[None, :]
        Ep = float(np.max(np.abs(Hp - rp) / norm_p))
        Eq = float(np.max(np.abs(Hq - rq)))
        Es.append((Ep, Eq))
        deltas.append(float(np.max(np.diff(z) / z[:-1])))
    # the same components under a halo: the padded domain is observed through explicit padding (every retained wavenumber of the
    # padded grid must be the one the halo=0 solve of the padded problem uses)
    halo_note = "skipped"
    hviol = None
    h = float(max(dx, dy) * rng.uniform(1.1, 2.9))
    px, py = int(h / (dom[0] / nx)), int(h / (dom[1] / ny))
    zc_, profc_ = gen.vgrid(gridk, z0, ztop, n0), fam(gen.vgrid(gridk, z0, ztop, n0))
    kxm, kym = np.pi / (dom[0] / nx), np.pi / (dom[1] / ny)
    Gall = gen.growth(zc_, profc_, kxm, kym)
    if Gall <= 18.0:
        lvh = [n0 // 2, n0]
        _, ch, fh = S(q0, zc_, profc_, dom, lvh, modes=(512, 512), halo=h, precision="double")
        qp = np.pad(q0, ((py, py), (px, px)))
        domp = (dom[0] + 2 * px * (dom[0] / nx), dom[1] + 2 * py * (dom[1] / ny))
        _, cp, fp_ = S(qp, zc_, profc_, domp, lvh, modes=(512, 512), halo=0.0, precision="double")
        eh = max(solve.relerr(ch, cp[:, py : py + ny, px : px + nx], scale=float(np.max(np.abs(cp))) or 1.0),
                 solve.relerr(fh, fp_[:, py : py + ny, px : px + nx], scale=float(np.max(np.abs(fp_))) or 1.0))
        halo_note = "compared"
        if eh > solve.tol("double", Gall, base=1e-11):
            hviol = dict(what="components_under_halo_differ_from_padded_problem", rel=eh, halo=h, pad=(px, py), G=Gall)
    viol = []
    ctx = dict(family=fam.d, grid=gridk, n0=n0, nx=nx, ny=ny, dx=dx, dy=dy, z0=z0, ztop=ztop, modes=nmodes, errors=Es, deltas=deltas)
    resid = {}
    for k, ((Ep, Eq), d) in enumerate(zip(Es, deltas)):
        resid["E_over_delta_conc"] = max(resid.get("E_over_delta_conc", 0.0), Ep / d)
        resid["E_over_delta_flux"] = max(resid.get("E_over_delta_flux", 0.0), Eq / d)
        if Ep > 2 * d + allow[k][0] or Eq > 2 * d + allow[k][1]:
            viol.append(dict(what="error_not_a_small_multiple_of_layer_thickness", refinement=k, E=(Ep, Eq), delta=d, precision=prec,
                             storage_allowance=allow[k], **ctx))
    for k in range(1, len(Es)):
        for nm, j in (("conc", 0), ("flux", 1)):
            a, b_ = Es[k - 1][j], Es[k][j]
            bound = max(a / 2.5, 0.1 * deltas[k]) + allow[k][j]
            if b_ > 0.1 * deltas[k] and a > 0:  # ratio clause active
                resid[f"fine_over_coarse_{nm}"] = max(resid.get(f"fine_over_coarse_{nm}", 0.0), b_ / a)
            if b_ > bound:
                viol.append(dict(what="error_does_not_shrink_with_layer_thickness", field=nm, refinement=k, coarse=a, fine=b_, bound=bound, **ctx))
    if hviol:
        viol.append(dict(hviol, **ctx))
    Gmax = float(np.max(G[good]))
    b = {f"halo_clause:{halo_note}": 1, f"max_growth_compared:{'<6' if Gmax < 6 else '6-12' if Gmax < 12 else '12-15' if Gmax < 15 else '15-18'}": 1,
         f"veer:{'yes' if fam.d.get('veer') else 'no'}": 1, f"extent:{'>60km' if max(dom) > 6e4 else '<=60km'}": 1, f"wind:{fam.d['wind']}": 1, f"K:{fam.d['K']}": 1, f"grid:{gridk}": 1, f"n0:{n0}": 1, f"refinements:{len(mults)}": 1, f"precision:{prec}": 1}
    return {"evals": len(mults) * nmodes * 3 * 2, "nontrivial": True, "sig": f"{case['idx']}", "buckets": b, "resid": resid,
            "counters": {"solver_calls": len(mults), "riccati_integrations": 1, "modes_compared": nmodes,
                         "modes_skipped_by_precondition": int((~good).sum())},
            "violations": viol, "sample": {k_: ctx[k_] for k_ in ("family", "grid", "n0", "nx", "ny", "dx", "dy", "z0", "ztop", "modes", "errors", "deltas")}}
