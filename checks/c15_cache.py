"""C15 - the result cache is transparent, complete, effective and crash-safe.

History monitor + fault enumeration.  Model: the uncached solve (a pure
function) plus "identical request => hit; hit => no vertical sweep".  Monitors:
a recording subclass of GreensFunctionCache (get->hit|miss, put events) and a
counting wrapper on bldfm.solver.ivp_solver.  Faults: every truncation length of
a stored entry, random byte corruption, zero-length and foreign files, and
process kills at every write/rename syscall of the real write path (strace
SIGKILL injection, in-process failpoint as fallback).
"""

import os

ID = "C15"
LEVEL = "fault_enumeration"
RULE = (
    "alphabet = base footprint request x every parameter of the solver signature varied one at a time (srf_flx shape, srf_flx values, z, "
    "each of the five profiles, domain, levels (scalar, list, reordered), modes, meas_pt, srf_bg_conc, analytic, halo incl. None vs its "
    "resolved value, precision, footprint off); histories = all ordered pairs A->B->B->A on a fresh directory, random sequences of "
    "length <= 12, the same sequences split over two processes sharing the directory, 2-4 processes using one directory (same keys) at the same time with a slow writer, 2-4 forked children using one inherited cache object (different keys) at the same time; faults = every truncation length of stored "
    "entries (thorough: every byte offset; quick: every 5th + all within 64 bytes of either end), random byte corruption, zero-length "
    "and garbage files, SIGKILL at every write/rename syscall of a storing process.  non-trivial = history with >= 2 distinct requests "
    "or a fault actually injected; distinct = distinct (history | fault point)"
)
ASSUMPTIONS = [
    "two requests are 'identical' when every result-determining argument is equal; equivalent-but-not-identical requests (halo None vs "
    "its resolved width, different source values in footprint mode) may hit or miss, both are accepted",
    "kill injection: strace -f -e inject=<write,pwrite64,writev,rename,renameat,renameat2>:signal=SIGKILL:when=K (ptrace); evidence names the injector used",
]
MIN_NONTRIVIAL = {"quick": 400, "thorough": 4000}
TIMEOUT = {"quick": 1500, "thorough": 7000}
NKILL = 8


def cases(tier, seed):
    out = []
    for i in range(len(variant_names())):
        out.append({"seed": seed, "kind": "pairs", "a": i, "_cost": 3})
    for i in range(16 if tier == "quick" else 96):
        out.append({"seed": seed, "kind": "sequence", "idx": i, "_cost": 4})
    nchunk = 8 if tier == "quick" else 32
    for req in ("base", "multi", "single_prec", "default_halo"):
        for c in range(nchunk):
            out.append({"seed": seed, "kind": "truncate", "req": req, "chunk": c, "nchunk": nchunk, "tier": tier, "_cost": 6})
    for i in range(8 if tier == "quick" else 48):
        out.append({"seed": seed, "kind": "corrupt", "idx": i, "_cost": 3})
    for j in range(NKILL):
        out.append({"seed": seed, "kind": "kill", "j": j, "_cost": 30})
    for i in range(4 if tier == "quick" else 24):
        out.append({"seed": seed, "kind": "concurrent", "idx": i, "_cost": 12})
    for i in range(4 if tier == "quick" else 24):
        out.append({"seed": seed, "kind": "inherited", "idx": i, "_cost": 8})
    # the cache directory on another filesystem than the system's temporary directory (a scratch mount, /dev/shm)
    for i in range(2 if tier == "quick" else 8):
        out.append({"seed": seed, "kind": "other_filesystem", "idx": i, "_cost": 4})
    return out


# ------------------------------------------------------------------ alphabet


def variant_names():
    return ["base", "flx_shape", "flx_values", "z", "u", "v", "Kx", "Ky", "Kz", "domain", "levels_scalar", "levels_list", "levels_reordered",
            "modes", "meas_pt", "bg", "analytic", "halo_none", "halo_resolved", "halo_zero", "halo_other", "halo_same_pads", "halo_other_py", "halo_other_px", "precision", "dispersion",
            "const_numeric", "const_analytic", "levels_long_a", "levels_long_b", "modes_over_x", "modes_clamped_x", "profiles_swapped",
            "levels_digits_a", "levels_digits_b", "shape_digits_a", "shape_digits_b", "one_row_multi", "one_col_multi", "precision_multi"]


def build(name):
    """kwargs of the solver call for a named request."""
    import numpy as np
    from bldfm.pbl_model import vertical_profiles

    z, prof = vertical_profiles(6, 4.0, (2.5, -1.5), ustar=0.3, mol=-80.0, closure="MOST")
    prof = [np.asarray(p, dtype=float).copy() for p in prof]
    r = dict(srf_flx=np.zeros((10, 12)), z=np.asarray(z, dtype=float).copy(), profiles=prof, domain=(120.0, 80.0), levels=6, modes=(12, 10),
             meas_pt=(50.0, 32.0), srf_bg_conc=0.0, footprint=True, analytic=False, halo=20.0, precision="double")
    if name in ("const_numeric", "const_analytic"):
        one = np.ones(len(z))
        r["profiles"] = [2.5 * one, -1.5 * one, 0.6 * one, 0.9 * one, 0.5 * one]
        r["analytic"] = name == "const_analytic"
        r["levels"] = [2, 6]
    elif name in ("levels_long_a", "levels_long_b"):
        # a finely resolved column requested in full: more than a thousand levels; the two requests differ only in the middle of the
        # list (two neighbouring levels exchanged)
        zz = np.linspace(0.05, 4.0, 1101)
        r["z"] = zz
        r["profiles"] = [2.5 * (zz / 4.0) ** 0.2, -1.5 * (zz / 4.0) ** 0.2, 0.12 * zz + 0.01, 0.12 * zz + 0.01, 0.12 * zz + 0.01]
        lv = list(range(1101))
        if name == "levels_long_b":
            lv[550], lv[551] = lv[551], lv[550]
        r["levels"] = lv
    elif name in ("levels_digits_a", "levels_digits_b", "shape_digits_a", "shape_digits_b"):
        # requests whose level lists / grid shapes are written with the same digits in the same order: [1, 12] and [11, 2];
        # level 1 on 26 x 40 cells and level 12 on 6 x 40 cells
        zz = np.linspace(0.05, 4.0, 21)
        r["z"] = zz
        r["profiles"] = [2.5 * (zz / 4.0) ** 0.2, -1.5 * (zz / 4.0) ** 0.2, 0.12 * zz + 0.01, 0.12 * zz + 0.01, 0.12 * zz + 0.01]
        r["levels"] = {"levels_digits_a": [1, 12], "levels_digits_b": [11, 2], "shape_digits_a": [1], "shape_digits_b": [12]}[name]
        if name.startswith("shape"):
            r["srf_flx"] = np.zeros((26, 40)) if name.endswith("_a") else np.zeros((6, 40))
            r["modes"] = (8, 6)
    elif name in ("one_row_multi", "one_col_multi"):
        # a vertical-plane set-up (one row / one column of cells) with several output levels
        r["srf_flx"] = np.zeros((1, 12)) if name == "one_row_multi" else np.zeros((10, 1))
        r["levels"] = [2, 4, 6]
        r["meas_pt"] = (50.0, 0.0) if name == "one_row_multi" else (0.0, 32.0)
    elif name == "flx_shape":
        r["srf_flx"] = np.zeros((12, 14))
    elif name == "flx_values":
        r["srf_flx"] = np.arange(120, dtype=float).reshape(10, 12) - 7.0
    elif name == "z":
        r["z"] = r["z"] * 1.01
    elif name in ("u", "v", "Kx", "Ky", "Kz"):
        i = ("u", "v", "Kx", "Ky", "Kz").index(name)
        r["profiles"][i] = r["profiles"][i] * (1.1 if i % 2 == 0 else 0.9)
    elif name == "domain":
        r["domain"] = (132.0, 80.0)
    elif name == "levels_scalar":
        r["levels"] = 3
    elif name == "levels_list":
        r["levels"] = [3, 6]
    elif name == "levels_reordered":
        r["levels"] = [6, 3]
    elif name == "modes":
        r["modes"] = (8, 6)
    elif name == "modes_over_x":       # padded grid 16 x 14: more modes than it holds along x only (the solver then keeps every mode)
        r["modes"] = (512, 10)
    elif name == "modes_clamped_x":    # every mode along x, ten along y: NOT the same request as modes_over_x
        r["modes"] = (16, 10)
    elif name == "profiles_swapped":   # the same five arrays in another assignment: (v, u, Ky, Kx, Kz)
        r["profiles"] = [r["profiles"][1], r["profiles"][0], r["profiles"][3] * 1.0, r["profiles"][2] * 1.0, r["profiles"][4]]
    elif name == "meas_pt":
        r["meas_pt"] = (60.0, 40.0)
    elif name == "bg":
        r["srf_bg_conc"] = 2.5
    elif name == "analytic":
        r["analytic"] = True
    elif name == "halo_none":
        r["halo"] = None
    elif name == "halo_resolved":
        r["halo"] = 120.0
    elif name == "halo_zero":
        r["halo"] = 0.0
    elif name == "halo_other":
        r["halo"] = 33.0
    elif name == "halo_same_pads":    # dx = 10, dy = 8: 23 m pads by (2, 2) cells like the base's 20 m (same padded problem)
        r["halo"] = 23.0
    elif name == "halo_other_py":     # 24.5 m: (2, 3) cells - the same pad in x, another in y
        r["halo"] = 24.5
    elif name == "halo_other_px":     # 18 m: (1, 2) cells - another pad in x, the same in y
        r["halo"] = 18.0
    elif name == "precision":
        r["precision"] = "single"
    elif name == "precision_multi":    # single precision with several output levels
        r["precision"] = "single"
        r["levels"] = [6, 2, 4]
    elif name == "dispersion":
        r["footprint"] = False
        r["srf_flx"] = np.arange(120, dtype=float).reshape(10, 12)
    r["profiles"] = tuple(r["profiles"])
    return r


EQUIV = {"flx_values": "base", "halo_resolved": "halo_none", "halo_same_pads": "base"}  # same result as ..., hit optional


def flat(res):
    import numpy as np

    (X, Y, Z), c, f = res
    return [np.asarray(a) for a in (X, Y, Z, c, f)]


def same(a, b):
    import numpy as np

    A, B = flat(a), flat(b)
    return all(x.shape == y.shape and x.dtype == y.dtype and np.array_equal(x, y, equal_nan=True) for x, y in zip(A, B))


class Monitors:
    """Recording cache + counting sweep wrapper."""

    def __init__(self, directory):
        import bldfm.solver as SV
        from bldfm.cache import GreensFunctionCache

        self.SV = SV
        self.events = []
        ev = self.events

        mon = self
        self.interleave = False
        self.prev_lookup = None
        self.escalate = False

        class Rec(GreensFunctionCache):
            def get(self, *a, **k):
                r = super().get(*a, **k)
                ev.append(("get", "hit" if r is not None else "miss"))
                if mon.interleave:
                    # schedule injection at the cache's own boundary: between this lookup and the store that follows a miss, another client of
                    # the same cache object (a second thread, a re-entrant caller) looks up the request that was looked up before this one
                    if r is None and mon.prev_lookup is not None:
                        pa, pk = mon.prev_lookup
                        GreensFunctionCache.get(self, *pa, **pk)
                        mon.interleaved_lookups = getattr(mon, "interleaved_lookups", 0) + 1
                    mon.prev_lookup = (a, k)
                return r

            def put(self, *a, **k):
                ev.append(("put",))
                return super().put(*a, **k)

        self.cache = Rec(directory)
        self.sweeps = 0
        self._real = SV.ivp_solver

        def counting(*a, **k):
            self.sweeps += 1
            return self._real(*a, **k)

        SV.ivp_solver = counting

    def close(self):
        self.SV.ivp_solver = self._real

    def solve(self, req):
        from bldfm.solver import steady_state_transport_solver as S

        n0, s0 = len(self.events), self.sweeps
        kw = dict(req)
        args = [kw.pop(k) for k in ("srf_flx", "z", "profiles", "domain", "levels")]
        if self.escalate:
            # a caller that turns warnings into errors (python -W error): what lies in the cache directory must not make the call fail
            import warnings as _w

            with _w.catch_warnings():
                _w.simplefilter("error")
                res = S(*args, cache=self.cache, **kw)
        else:
            res = S(*args, cache=self.cache, **kw)
        return res, self.events[n0:], self.sweeps - s0


def reference(names):
    from bldfm.solver import steady_state_transport_solver as S

    out = {}
    for nm in names:
        kw = build(nm)
        args = [kw.pop(k) for k in ("srf_flx", "z", "profiles", "domain", "levels")]
        out[nm] = S(*args, **kw)
    return out


def check_step(nm, res, ev, sweeps, ref, seen, viol, ctx, counters):
    """One observed solve against the model."""
    counters["solves"] += 1
    if not same(res, ref[nm]):
        viol.append(dict(what="cached_run_differs_from_uncached", request=nm, events=ev, **ctx))
    foot = nm != "dispersion"
    hit = ("get", "hit") in ev
    if not foot:
        if ev:
            viol.append(dict(what="dispersion_request_touches_cache", request=nm, events=ev, **ctx))
        return
    counters["hits" if hit else "misses"] += 1
    if nm in seen:
        counters["repeat_requests"] += 1
        if not hit or sweeps or ("put",) in ev:
            viol.append(dict(what="identical_request_not_served_from_cache", request=nm, events=ev, sweeps=sweeps, **ctx))
    else:
        eq = EQUIV.get(nm) in seen or any(EQUIV.get(s) == nm for s in seen)
        if hit and not eq:
            # a hit on a never-stored request: only legitimate if the stored entry is the same result
            counters["hit_on_unseen"] += 1
        if not hit and ("put",) not in ev:
            # through which method an entry is written is the implementation's business; whether the identical request that follows is
            # served from the cache decides (the repeat clause above)
            counters["misses_without_a_put_event"] = counters.get("misses_without_a_put_event", 0) + 1
    if hit and sweeps:
        viol.append(dict(what="hit_but_solved_again", request=nm, sweeps=sweeps, **ctx))
    seen.add(nm)
    # the result has been judged: overwrite its arrays (they are the caller's; a cache that keeps handing out the same objects would
    # serve the overwritten values to the next identical request)
    from vlib import purity

    purity.poison(res)


def run_case(case):
    # this check forks children that solve; it keeps the single-thread kernel throughout (a forked child must not enter a threaded
    # kernel whose thread pool the parent has already started - the harness's constraint, not the property's subject)
    from bldfm import config as _rc

    _rc.NUM_THREADS = 1
    return {"pairs": pairs, "sequence": sequence, "truncate": truncate, "corrupt": corrupt, "kill": kill,
            "concurrent": concurrent, "inherited": inherited, "other_filesystem": other_filesystem}[case["kind"]](case)


def other_filesystem(case):
    """Transparency and effectiveness with the cache directory on a filesystem other than the one temporary files go to."""
    import os
    import shutil
    import tempfile

    tdev = os.stat(tempfile.gettempdir()).st_dev
    root = None
    for cand in ("/dev/shm", "/run/shm", os.path.expanduser("~"), "/var/tmp", os.getcwd()):
        try:
            if os.path.isdir(cand) and os.access(cand, os.W_OK) and os.stat(cand).st_dev != tdev:
                root = cand
                break
        except OSError:
            pass
    if root is None:
        return {"evals": 0, "nontrivial": False, "skipped": "no writable directory on a filesystem other than the temporary directory's"}
    names = [variant_names()[(3 * case["idx"] + k_) % len(variant_names())] for k_ in range(3)]
    names = [n_ for n_ in names if n_ != "dispersion"] or ["base"]
    ref = reference(set(names))
    viol = []
    counters = {"solves": 0, "hits": 0, "misses": 0, "repeat_requests": 0, "hit_on_unseen": 0}
    d = tempfile.mkdtemp(dir=root, prefix="bldfm-verif-c15-")
    M = Monitors(d)
    try:
        seen = set()
        for nm in names + names:
            try:
                res, ev, sw = M.solve(build(nm))
            except BaseException as e:  # noqa
                viol.append(dict(what="request_with_cache_on_another_filesystem_is_fatal", request=nm, exc=f"{type(e).__name__}: {str(e)[:160]}", directory=root))
                break
            check_step(nm, res, ev, sw, ref, seen, viol, dict(history=names + names, cache_directory_on=root), counters)
    finally:
        M.close()
        shutil.rmtree(d, ignore_errors=True)
    return {"evals": counters["solves"], "nontrivial": True, "sig": f"otherfs|{case['idx']}", "buckets": {"cache_directory:other_filesystem": 1},
            "counters": dict(counters, cache_directories_on_another_filesystem=1), "violations": viol, "sample": {"directory_root": root, "history": names + names}}


def _inherited_child(cache, names, seed, slow, start, q):
    """Runs in a forked child: uses the cache OBJECT it inherited from the parent."""
    import time

    import numpy as np
    from bldfm.solver import steady_state_transport_solver as S

    out = {"solves": 0, "viol": []}
    try:
        ref = reference(set(names))
        real = np.savez

        def slow_savez(file, *a, **k):
            if isinstance(file, (str, os.PathLike)):
                t = str(file) if str(file).endswith(".npz") else str(file) + ".npz"
                open(t, "wb").write(b"PK\x03\x04")
            else:
                try:
                    file.flush()
                except Exception:
                    pass
            time.sleep(slow)
            return real(file, *a, **k)

        if slow > 0:
            np.savez = slow_savez
        start.wait(60)
        rng = np.random.default_rng(seed)
        for step in range(30):
            nm = names[int(rng.integers(len(names)))]
            kw = build(nm)
            args = [kw.pop(k) for k in ("srf_flx", "z", "profiles", "domain", "levels")]
            try:
                res = S(*args, cache=cache, **kw)
            except BaseException as e:  # noqa
                out["viol"].append({"what": "concurrent_use_is_fatal", "request": nm, "exc": type(e).__name__ + ": " + str(e)[:100], "step": step})
                continue
            out["solves"] += 1
            if not same(res, ref[nm]):
                out["viol"].append({"what": "cached_run_differs_from_uncached", "request": nm, "step": step, "cache_object": "inherited across fork"})
    except BaseException as e:  # noqa
        out["error"] = repr(e)[:300]
    q.put(out)


def inherited(case):
    """One GreensFunctionCache object created in the parent and used by forked children that store different entries at the
    same time (what a pool does when the cache is built before the fork), with a slow writer."""
    import multiprocessing as mp
    import shutil
    import tempfile

    from bldfm.cache import GreensFunctionCache
    from vlib import gen

    rng = gen.rng_for(case["seed"], "C15inh", case["idx"])
    pool = [n for n in variant_names() if n not in ("dispersion",)]
    nproc = int(rng.choice([2, 3, 4]))
    slow = float(rng.choice([0.005, 0.02]))
    d = os.path.abspath(tempfile.mkdtemp(dir=".", prefix="inh_"))
    viol = []
    counters = {"inherited_cache_processes": nproc, "inherited_cache_solves": 0}
    try:
        cache = GreensFunctionCache(os.path.join(d, "cache"))
        ctx = mp.get_context("fork")
        start, q = ctx.Event(), ctx.Queue()
        # each child works on its own pair of requests: different keys written at the same moment through the same object
        sets = [[str(x) for x in rng.choice(pool, size=2, replace=False)] for _ in range(nproc)]
        procs = [ctx.Process(target=_inherited_child, args=(cache, sets[k], case["seed"] * 1000 + case["idx"] * 10 + k, slow, start, q)) for k in range(nproc)]
        for p_ in procs:
            p_.start()
        start.set()
        got = []
        for _ in procs:
            try:
                got.append(q.get(timeout=900))
            except Exception:
                return {"harness_error": "child with inherited cache object did not report (watchdog)"}
        for p_ in procs:
            p_.join(30)
        for r in got:
            if r.get("error"):
                return {"harness_error": "child with inherited cache object failed: " + r["error"]}
            counters["inherited_cache_solves"] += r["solves"]
            viol.extend(dict(v, processes=nproc, slow_writer=slow) for v in r["viol"])
    finally:
        shutil.rmtree(d, ignore_errors=True)
    return {"evals": counters["inherited_cache_solves"], "nontrivial": True, "sig": f"inh|{case['idx']}|{nproc}|{slow}",
            "buckets": {"history:cache_object_inherited_across_fork": 1}, "counters": counters, "violations": viol,
            "sample": {"processes": nproc, "request_sets": sets, "slow_writer_s": slow}}


HAMMER = (
    "import sys, os, json, time\n"
    "from vlib import boot; boot.boot()\n"
    "import numpy as np\n"
    "from checks import c15_cache as C\n"
    "d, names, seed, slow = sys.argv[1], json.loads(sys.argv[2]), int(sys.argv[3]), float(sys.argv[4])\n"
    "ref = C.reference(set(names))\n"
    "real = np.savez\n"
    "def slow_savez(file, *a, **k):\n"
    "    if isinstance(file, (str, os.PathLike)):\n"
    "        t = str(file) if str(file).endswith('.npz') else str(file) + '.npz'\n"
    "        open(t, 'wb').write(b'PK\\x03\\x04')\n"
    "    time.sleep(slow)\n"
    "    return real(file, *a, **k)\n"
    "if slow > 0: np.savez = slow_savez\n"
    "open(os.path.join(d, 'ready_%d' % os.getpid()), 'w').close()\n"
    "t0 = time.time()\n"
    "while not os.path.exists(os.path.join(d, 'go')) and time.time() - t0 < 120: time.sleep(0.005)\n"
    "rng = np.random.default_rng(seed)\n"
    "M = C.Monitors(os.path.join(d, 'cache'))\n"
    "out = {'solves': 0, 'hits': 0, 'misses': 0, 'viol': []}\n"
    "for step in range(40):\n"
    "    nm = names[int(rng.integers(len(names)))]\n"
    "    try:\n"
    "        res, ev, sw = M.solve(C.build(nm))\n"
    "    except BaseException as e:\n"
    "        out['viol'].append({'what': 'concurrent_use_is_fatal', 'request': nm, 'exc': type(e).__name__ + ': ' + str(e)[:100], 'step': step}); continue\n"
    "    out['solves'] += 1\n"
    "    out['hits' if ('get', 'hit') in ev else 'misses'] += 1\n"
    "    if not C.same(res, ref[nm]):\n"
    "        out['viol'].append({'what': 'cached_run_differs_from_uncached', 'request': nm, 'events': ev, 'step': step, 'concurrent': True})\n"
    "print('RESULT' + json.dumps(out))\n"
)


def concurrent(case):
    """Several processes use one cache directory at the same time (same keys), with a slow writer."""
    import json
    import shutil
    import subprocess
    import sys
    import tempfile
    import time

    from vlib import gen

    rng = gen.rng_for(case["seed"], "C15conc", case["idx"])
    names = [str(x) for x in rng.choice([n for n in variant_names() if n != "dispersion"], size=3, replace=False)]
    nproc = int(rng.choice([2, 3, 4]))
    slow = float(rng.choice([0.0, 0.01, 0.03]))
    d = os.path.abspath(tempfile.mkdtemp(dir=".", prefix="conc_"))
    viol = []
    counters = {"concurrent_processes": nproc, "concurrent_solves": 0, "concurrent_hits": 0, "concurrent_misses": 0}
    try:
        procs = [subprocess.Popen([sys.executable, "-c", HAMMER, d, json.dumps(names), str(case["seed"] * 1000 + case["idx"] * 10 + k), str(slow)],
                                  stdout=subprocess.PIPE, stderr=subprocess.PIPE, text=True) for k in range(nproc)]
        t0 = time.time()
        while len([f for f in os.listdir(d) if f.startswith("ready_")]) < nproc and time.time() - t0 < 300:
            time.sleep(0.05)
        open(os.path.join(d, "go"), "w").close()
        for p_ in procs:
            try:
                so, se = p_.communicate(timeout=900)
            except subprocess.TimeoutExpired:
                p_.kill()
                return {"harness_error": "concurrent cache user did not finish (watchdog)"}
            line = [l for l in so.splitlines() if l.startswith("RESULT")]
            if not line:
                return {"harness_error": "concurrent cache user died: " + se[-400:]}
            r = json.loads(line[0][6:])
            counters["concurrent_solves"] += r["solves"]
            counters["concurrent_hits"] += r["hits"]
            counters["concurrent_misses"] += r["misses"]
            viol.extend(dict(v, processes=nproc, slow_writer=slow, requests=names) for v in r["viol"])
    finally:
        shutil.rmtree(d, ignore_errors=True)
    return {"evals": counters["concurrent_solves"], "nontrivial": True, "sig": f"conc|{case['idx']}|{nproc}|{slow}|{names}",
            "buckets": {"history:concurrent_processes": 1, f"slow_writer:{slow}": 1}, "counters": counters, "violations": viol,
            "sample": {"processes": nproc, "requests": names, "slow_writer_s": slow, "solves": counters["concurrent_solves"]}}


def pairs(case):
    import shutil
    import tempfile

    names = variant_names()
    a = names[case["a"]]
    ref = reference(names)
    viol, sigs = [], []
    counters = {"solves": 0, "hits": 0, "misses": 0, "repeat_requests": 0, "hit_on_unseen": 0, "histories": 0}
    for b in names:
        d = tempfile.mkdtemp(dir=".", prefix="pair_")
        M = Monitors(d)
        try:
            seen = set()
            hist = [a, b, b, a]
            for nm in hist:
                res, ev, sw = M.solve(build(nm))
                check_step(nm, res, ev, sw, ref, seen, viol, dict(history=hist), counters)
            counters["histories"] += 1
            if a != b:
                sigs.append(f"pair|{a}>{b}")
        finally:
            M.close()
            shutil.rmtree(d, ignore_errors=True)
    return {"evals": counters["solves"], "nontrivial": True, "sig": sigs, "buckets": {"history:pairs": 1}, "counters": counters, "violations": viol,
            "sample": {"history": [a, names[(case["a"] + 1) % len(names)]] * 2}}


def sequence(case):
    import json
    import shutil
    import subprocess
    import sys
    import tempfile

    from vlib import gen

    rng = gen.rng_for(case["seed"], "C15seq", case["idx"])
    names = variant_names()
    pool = [str(x) for x in rng.choice(names, size=int(rng.integers(3, 7)), replace=False)]
    hist = [str(rng.choice(pool)) for _ in range(int(rng.integers(6, 13)))]
    split = int(rng.integers(1, len(hist)))
    ref = reference(set(hist))
    viol = []
    counters = {"solves": 0, "hits": 0, "misses": 0, "repeat_requests": 0, "hit_on_unseen": 0, "histories": 0, "cross_process_histories": 0}
    # (1) one process
    d = tempfile.mkdtemp(dir=".", prefix="seq_")
    M = Monitors(d)
    M.interleave = bool(case["idx"] % 2)
    try:
        seen = set()
        if case["idx"] % 3 == 0:
            # an entry left in the directory by another writer of the documented positional form put(z, profiles, domain, modes, meas_pt,
            # halo, precision, grid, conc, flx) - an older release, a script of the user's: it says nothing about levels, grid shape,
            # closed-form switch or background, so it is not the answer to any request that names them
            import numpy as np

            r0 = build(hist[0])
            g0, c0, f0 = ref[hist[0]]
            from bldfm.cache import GreensFunctionCache as _G

            _G.put(M.cache, r0["z"], r0["profiles"], r0["domain"], r0["modes"], r0["meas_pt"], r0["halo"], r0["precision"],
                   g0, np.full_like(np.asarray(c0), 123.0), np.full_like(np.asarray(f0), -123.0))
            counters["entries_left_by_another_writer"] = 1
        for nm in hist:
            res, ev, sw = M.solve(build(nm))
            check_step(nm, res, ev, sw, ref, seen, viol, dict(history=hist, processes=1), counters)
        counters["histories"] += 1
        counters["lookups_interleaved_between_a_miss_and_its_store"] = getattr(M, "interleaved_lookups", 0)
    finally:
        M.close()
        shutil.rmtree(d, ignore_errors=True)
    # (2) first part in another process, the rest here, same directory
    d = tempfile.mkdtemp(dir=".", prefix="seq2_")
    try:
        code = ("import sys, json; from vlib import boot; boot.boot()\n"
                "from checks import c15_cache as C\n"
                "M = C.Monitors(sys.argv[1]); out=[]\n"
                "for nm in json.loads(sys.argv[2]):\n"
                "    res, ev, sw = M.solve(C.build(nm)); out.append([nm, ev, sw])\n"
                "print('RESULT'+json.dumps(out))\n")
        r = subprocess.run([sys.executable, "-c", code, d, json.dumps(hist[:split])], capture_output=True, text=True, timeout=600)
        line = [l for l in r.stdout.splitlines() if l.startswith("RESULT")]
        if r.returncode != 0 or not line:
            return {"harness_error": "first-process part failed: " + r.stderr[-600:]}
        seen = set(hist[:split])
        M = Monitors(d)
        try:
            for nm in hist[split:]:
                res, ev, sw = M.solve(build(nm))
                check_step(nm, res, ev, sw, ref, seen, viol, dict(history=hist, processes=2, split=split), counters)
            counters["cross_process_histories"] += 1
        finally:
            M.close()
    finally:
        shutil.rmtree(d, ignore_errors=True)
    return {"evals": counters["solves"], "nontrivial": len(set(hist)) >= 2, "sig": f"seq|{case['idx']}|{'>'.join(hist)}",
            "buckets": {"history:sequence": 1, "history:two_processes": 1}, "counters": counters, "violations": viol,
            "sample": {"history": hist, "split_after": split}}


REQS = {"base": "base", "multi": "levels_reordered", "single_prec": "precision", "default_halo": "halo_none"}


def _store(nm, d):
    """Store request nm in directory d with the real write path; returns (path of the entry, bytes)."""
    from pathlib import Path

    M = Monitors(d)
    try:
        M.solve(build(nm))
    finally:
        M.close()
    files = sorted(Path(d).glob("*.npz"))
    if len(files) != 1:
        raise RuntimeError(f"expected exactly one stored entry, found {[f.name for f in files]}")
    return files[0], files[0].read_bytes()


def _probe(nm, d, ref, viol, ctx, counters):
    """Issue request nm on directory d; it must come back correct, whatever lies there."""
    M = Monitors(d)
    M.escalate = bool(counters.get("probes", 0) % 2)
    if M.escalate:
        counters["probes_with_warnings_escalated_to_errors"] = counters.get("probes_with_warnings_escalated_to_errors", 0) + 1
        ctx = dict(ctx, caller="warnings escalated to errors")
    try:
        try:
            res, ev, sw = M.solve(build(nm))
        except BaseException as e:  # noqa
            counters["fatal"] = counters.get("fatal", 0) + 1
            viol.append(dict(what="damaged_entry_is_fatal", request=nm, exc=f"{type(e).__name__}: {str(e)[:120]}", **ctx))
            return
        counters["probes"] = counters.get("probes", 0) + 1
        counters["probe_hits" if ("get", "hit") in ev else "probe_misses"] = counters.get("probe_hits" if ("get", "hit") in ev else "probe_misses", 0) + 1
        if not same(res, ref):
            viol.append(dict(what="damaged_entry_is_returned", request=nm, events=ev, **ctx))
        # recovery: once the damaged entry has been treated as a miss and the request solved again, the identical request that
        # follows must be served from the cache (no second solve) - every third probe, and always at the ends of the enumeration
        if ("get", "hit") not in ev and (counters["probes"] % 3 == 0 or ctx.get("length") in (0, 1) or ctx.get("length") == (ctx.get("full") or 0) - 1):
            try:
                res2, ev2, sw2 = M.solve(build(nm))
            except BaseException as e:  # noqa
                viol.append(dict(what="damaged_entry_is_fatal", request=nm, exc=f"second request: {type(e).__name__}: {str(e)[:120]}", **ctx))
                return
            counters["recovery_probes"] = counters.get("recovery_probes", 0) + 1
            if not same(res2, ref):
                viol.append(dict(what="damaged_entry_is_returned", request=nm, events=ev2, second_request=True, **ctx))
            elif ("get", "hit") not in ev2 or sw2 or ("put",) in ev2:
                viol.append(dict(what="identical_request_not_served_from_cache", request=nm, events=ev2, sweeps=sw2,
                                 after="a damaged entry was found, treated as a miss and the request solved again", **ctx))
    finally:
        M.close()


def truncate(case):
    import shutil
    import tempfile

    nm = REQS[case["req"]]
    ref = reference([nm])[nm]
    d0 = tempfile.mkdtemp(dir=".", prefix="tr0_")
    viol, sigs = [], []
    counters = {}
    try:
        path, blob = _store(nm, d0)
        n = len(blob)
        if case["tier"] == "thorough":
            offs = list(range(0, n))
        else:
            offs = sorted(set(list(range(0, min(64, n))) + list(range(max(0, n - 64), n)) + list(range(0, n, 5))))
        offs = offs[case["chunk"] :: case["nchunk"]]
        d = tempfile.mkdtemp(dir=".", prefix="tr_")
        try:
            for L in offs:
                for f in os.listdir(d):
                    os.unlink(os.path.join(d, f))
                with open(os.path.join(d, path.name), "wb") as fh:
                    fh.write(blob[:L])
                _probe(nm, d, ref, viol, dict(fault="truncated", length=L, full=n), counters)
                sigs.append(f"trunc|{case['req']}|{L}")
        finally:
            shutil.rmtree(d, ignore_errors=True)
    finally:
        shutil.rmtree(d0, ignore_errors=True)
    counters["truncation_points"] = len(offs)
    return {"evals": len(offs), "nontrivial": True, "sig": sigs, "buckets": {f"fault:truncate:{case['req']}": 1}, "counters": counters,
            "violations": viol, "sample": {"request": nm, "entry_bytes": n, "lengths_tried": offs[:6] + ["..."] + offs[-3:]}}


def corrupt(case):
    import shutil
    import tempfile

    from vlib import gen

    rng = gen.rng_for(case["seed"], "C15cor", case["idx"])
    nm = REQS[str(rng.choice(list(REQS)))]
    ref = reference([nm])[nm]
    viol, sigs, counters = [], [], {}
    d0 = tempfile.mkdtemp(dir=".", prefix="co0_")
    try:
        path, blob = _store(nm, d0)
        n = len(blob)
        d = tempfile.mkdtemp(dir=".", prefix="co_")
        try:
            faults = []
            for _ in range(40):
                b = bytearray(blob)
                k = int(rng.integers(1, 5))
                pos = [int(p) for p in rng.integers(0, n, size=k)]
                for p in pos:
                    b[p] ^= int(rng.integers(1, 256))
                faults.append(("flip", pos, bytes(b)))
            faults.append(("zero_length", [], b""))
            faults.append(("garbage", [], bytes(rng.integers(0, 256, size=n, dtype="uint8"))))
            faults.append(("text", [], b"not a zip file\n" * 20))
            faults.append(("zeroed_block", [n // 3], blob[: n // 3] + bytes(64) + blob[n // 3 + 64 :]))
            faults.append(("other_entry", [], None))
            for kind, pos, data in faults:
                for f in os.listdir(d):
                    os.unlink(os.path.join(d, f))
                if kind == "other_entry":
                    # a valid entry of ANOTHER request stored under this request's name must be... undetectable by design of any
                    # content-addressed cache; not a fault an interrupted run can produce -> not injected
                    continue
                with open(os.path.join(d, path.name), "wb") as fh:
                    fh.write(data)
                _probe(nm, d, ref, viol, dict(fault=kind, positions=pos), counters)
                sigs.append(f"corrupt|{case['idx']}|{kind}|{pos}")
        finally:
            shutil.rmtree(d, ignore_errors=True)
    finally:
        shutil.rmtree(d0, ignore_errors=True)
    return {"evals": len(sigs), "nontrivial": True, "sig": sigs, "buckets": {"fault:corrupt": 1}, "counters": counters, "violations": viol,
            "sample": {"request": nm, "entry_bytes": n, "faults": 44}}


CHILD = (
    "import os, sys\n"
    "from vlib import boot; boot.boot()\n"
    "from checks import c15_cache as C\n"
    "from bldfm.solver import steady_state_transport_solver as S\n"
    "kw = C.build('base'); args = [kw.pop(k) for k in ('srf_flx','z','profiles','domain','levels')]\n"
    "S(*args, **kw)\n"  # warm: compile / plan before the marker
    "from bldfm.cache import GreensFunctionCache\n"
    "c = GreensFunctionCache(sys.argv[1])\n"
    "os.write(2, b'@@MARKER@@\\n')\n"
    "S(*args, cache=c, **kw)\n"
    "os.write(2, b'@@DONE@@\\n')\n"
)
SYSCALLS = "write,pwrite64,writev,rename,renameat,renameat2"


def kill(case):
    import re
    import shutil
    import subprocess
    import sys
    import tempfile

    viol, sigs = [], []
    counters = {"kill_points": 0, "killed_confirmed": 0}
    ref = reference(["base"])["base"]
    if not shutil.which("strace"):
        return failpoint_fallback(case, ref, "strace not installed")
    d = tempfile.mkdtemp(dir=".", prefix="kd_")
    log = os.path.join(d, "trace.log")
    env = dict(os.environ, PYTHONDONTWRITEBYTECODE="1")
    try:
        # throw-away warm-up so that byte-code / JIT caches exist and every traced run issues the same writes before the marker
        subprocess.run([sys.executable, "-c", CHILD, os.path.join(d, "warm")], capture_output=True, text=True, timeout=900, env=env)
        r = subprocess.run(["strace", "-f", "-e", f"trace={SYSCALLS}", "-o", log, sys.executable, "-c", CHILD, os.path.join(d, "cache")],
                           capture_output=True, text=True, timeout=900, env=env)
        if r.returncode != 0 or "@@DONE@@" not in r.stderr:
            return failpoint_fallback(case, ref, "strace dry run failed (ptrace unavailable?): " + r.stderr[-300:])
        lines = open(log).read().splitlines()
        # the storing (main) process is the one that wrote the marker
        mk = [i for i, l in enumerate(lines) if "@@MARKER@@" in l]
        if not mk:
            return failpoint_fallback(case, ref, "marker not found in the dry-run trace")
        pid = lines[mk[0]].split()[0]
        mine = [l for l in lines if l.split()[0] == pid and re.search(r"\b(write|pwrite64|writev|rename|renameat|renameat2)\(", l)]
        kmark = next(i for i, l in enumerate(mine) if "@@MARKER@@" in l) + 1  # 1-based index of the marker write
        kdone = next(i for i, l in enumerate(mine) if "@@DONE@@" in l) + 1
        ks = list(range(kmark + 1, kdone + 1))  # every syscall of the put, and the first one after it
        counters["syscalls_in_put"] = len(ks) - 1
        mine_ks = ks[case["j"] :: NKILL]
        described = {}
        for K in mine_ks:
            cd = os.path.join(d, f"cache_{K}")
            lg = os.path.join(d, f"kill_{K}.log")
            r = subprocess.run(["strace", "-f", "-e", f"trace={SYSCALLS}", "-e", f"inject={SYSCALLS}:signal=SIGKILL:when={K}", "-o", lg,
                                sys.executable, "-c", CHILD, cd], capture_output=True, text=True, timeout=900, env=env)
            counters["kill_points"] += 1
            killed = "@@DONE@@" not in r.stderr and r.returncode != 0
            tr = open(lg).read() if os.path.exists(lg) else ""
            if killed and "killed by SIGKILL" in tr:
                counters["killed_confirmed"] += 1
            left = sorted(os.listdir(cd)) if os.path.isdir(cd) else []
            sizes = {f: os.path.getsize(os.path.join(cd, f)) for f in left}
            described[K] = {"syscall": mine[K - 1].split(None, 1)[1][:60] if K - 1 < len(mine) else "?", "left_on_disk": sizes, "killed": killed}
            # a fresh "process": new monitors, same directory
            os.makedirs(cd, exist_ok=True)
            _probe("base", cd, ref, viol, dict(fault="sigkill", when=K, syscall=described[K]["syscall"], left_on_disk=sizes), counters)
            sigs.append(f"kill|{K}")
            # and the directory must still work afterwards: store + hit
            M = Monitors(cd)
            try:
                res, ev, sw = M.solve(build("base"))
                if not same(res, ref) or ("get", "hit") not in ev:
                    viol.append(dict(what="cache_unusable_after_interrupted_write", when=K, events=ev, left_on_disk=sizes))
            except BaseException as e:  # noqa
                viol.append(dict(what="damaged_entry_is_fatal", request="base", exc=repr(e)[:160], fault="sigkill (second request)", when=K))
            finally:
                M.close()
    finally:
        shutil.rmtree(d, ignore_errors=True)
    if counters["kill_points"] and not counters["killed_confirmed"]:
        return {"harness_error": "strace injection never killed the child: " + str(described)}
    return {"evals": counters["kill_points"], "nontrivial": bool(sigs), "sig": sigs, "buckets": {"fault:sigkill_strace": 1}, "counters": counters,
            "violations": viol, "sample": {"injector": "strace SIGKILL", "kill_points": described}}


def failpoint_fallback(case, ref, why):
    """In-process failpoint: the file object handed to np.savez dies after a byte budget; os.replace is wrapped."""
    import builtins
    import shutil
    import tempfile

    import numpy as np

    viol, sigs = [], []
    counters = {"kill_points": 0, "failpoint_fallback": 1}
    # child processes with a byte budget on writes to files inside the cache directory
    code = (
        "import os, sys, io\n"
        "from vlib import boot; boot.boot()\n"
        "from checks import c15_cache as C\n"
        "from bldfm.solver import steady_state_transport_solver as S\n"
        "from bldfm.cache import GreensFunctionCache\n"
        "budget = int(sys.argv[2]); cd = os.path.abspath(sys.argv[1])\n"
        "real_write = os.write; real_replace = os.replace\n"
        "import builtins\n"
        "class F(io.FileIO):\n"
        "    def write(self, b):\n"
        "        global budget\n"
        "        n = len(bytes(b))\n"
        "        if n > budget:\n"
        "            super().write(bytes(b)[:budget]); self.flush(); os._exit(137)\n"
        "        budget -= n\n"
        "        return super().write(b)\n"
        "_open = builtins.open; _fdopen = os.fdopen\n"
        "def fdopen(fd, mode='r', *a, **k):\n"
        "    return F(fd, mode.replace('b','')) if 'w' in mode else _fdopen(fd, mode, *a, **k)\n"
        "os.fdopen = fdopen\n"
        "def opn(p, mode='r', *a, **k):\n"
        "    if 'w' in mode and os.path.abspath(str(p)).startswith(cd): return F(str(p), 'w')\n"
        "    return _open(p, mode, *a, **k)\n"
        "builtins.open = opn\n"
        "def repl(a, b):\n"
        "    if budget == 0: os._exit(137)\n"
        "    return real_replace(a, b)\n"
        "os.replace = repl\n"
        "kw = C.build('base'); args = [kw.pop(k) for k in ('srf_flx','z','profiles','domain','levels')]\n"
        "S(*args, cache=GreensFunctionCache(cd), **kw)\n"
    )
    import subprocess
    import sys

    d = tempfile.mkdtemp(dir=".", prefix="fp_")
    try:
        budgets = [0, 1, 10, 100, 500, 1000, 2000, 3000, 4000, 10**9][case["j"] :: NKILL]
        for bd in budgets:
            cd = os.path.join(d, f"c{bd}")
            subprocess.run([sys.executable, "-c", code, cd, str(bd)], capture_output=True, text=True, timeout=600)
            counters["kill_points"] += 1
            os.makedirs(cd, exist_ok=True)
            _probe("base", cd, ref, viol, dict(fault="failpoint", byte_budget=bd, left_on_disk=sorted(os.listdir(cd))), counters)
            sigs.append(f"failpoint|{bd}")
    finally:
        shutil.rmtree(d, ignore_errors=True)
    return {"evals": counters["kill_points"], "nontrivial": bool(sigs), "sig": sigs, "buckets": {"fault:failpoint_fallback": 1}, "counters": counters,
            "violations": viol, "sample": {"injector": "in-process failpoint (" + why + ")"}}


def finalize(results, tier):
    inc = []
    b = {k for r in results for k in r.get("buckets", {})}
    if "fault:sigkill_strace" not in b and "fault:failpoint_fallback" not in b:
        inc.append("no kill injector could be used (neither strace nor the in-process failpoint ran)")
    tp = sum(r.get("counters", {}).get("truncation_points", 0) for r in results)
    kp = sum(r.get("counters", {}).get("kill_points", 0) for r in results)
    return {"inconclusive": inc, "coverage": {"truncation_points": tp, "kill_points": kp,
                                              "injector": "strace" if "fault:sigkill_strace" in b else "in-process failpoint",
                                              "exhaustive": False}}
