"""C11 - output keeps the input grid for any size parity, halo and mode count.

Relation monitor over an exhaustive small range: every tuple is run on the real
solver and judged on shape, coordinates, low-pass relation, registration under a
halo (against the explicit pad / halo=0 / crop run) and over-request equivalence.
"""

ID = "C11"
LEVEL = "exploration"
RULE = (
    "nx, ny in 4..9 (even and odd) x even mode counts 2..12 per axis x halo {0, None, 0.7dx, 1.6dx, 2dx} x {dispersion, footprint}: "
    "thorough enumerates all tuples of the wider range nx, ny in 4..11, modes 2..16 (40 960 tuples, exhaustive over that range), quick a "
    "Latin subsample of the 4..9 / 2..12 range; each accepted tuple is "
    "checked for shape/coordinates, low-pass relation (halo=0), registration against pad/halo=0/crop (halo>0), over-request "
    "equivalence and - with all modes retained - the exact surface-level identity (flux at z0 == source / unit pulse at the tower); ValueError/IndexError are accepted outcomes and counted.  non-trivial = accepted tuple with truncation, a halo "
    "pad >= 1 or an odd size; distinct = distinct tuples"
)
ASSUMPTIONS = [
    "a mixed over-request (one axis above the padded size, one below) may either clamp that axis or set both to the padded size",
    "spectral comparisons at 1e-9 of the spectrum maximum; small well-conditioned column (G < 8)",
]
MIN_NONTRIVIAL = {"quick": 400, "thorough": 12000}
TIMEOUT = {"quick": 900, "thorough": 7000}
HALOS = ("zero", "none", "0.7dx", "1.6dx", "2dx")
SIZES = range(4, 10)
MODES = range(2, 13, 2)


def cases(tier, seed):
    out = []
    sizes = SIZES if tier == "quick" else range(4, 12)
    for nx in sizes:
        for ny in sizes:
            for h in HALOS:
                out.append({"nx": nx, "ny": ny, "halo": h, "tier": tier, "seed": seed})
    # coordinate clause over many (extent, cell count) pairs: x = i*dx, y = j*dy must hold for every accepted grid, also where
    # extent / count is not exactly representable (300 m / 7, 100 m / 29, 0.3 m / 3)
    for i in range(16 if tier == "quick" else 1024):
        out.append({"seed": seed, "kind": "coords", "idx": i, "tier": tier, "_cost": 4})
    out_ = out
    if tier == "thorough":
        out_.append({"seed": seed, "kind": "repo_tests", "_cost": 40})
    return out_


def column():
    import numpy as np

    z = np.array([0.05, 0.4, 1.2, 2.5, 4.0])
    u = 0.9 * np.log(z / 0.01)
    return z, (u * 0.8, -u * 0.6, 0.9 * 0.16 * z, 1.3 * 0.16 * z, 0.16 * z)


def run_case(case):
    if case.get("kind") == "repo_tests":
        from vlib import hooks

        return hooks.run_repo_tests(ID, ['test_integration.py', 'test_interface.py', 'test_cache.py'])
    import numpy as np
    from vlib import gen, solve

    if case.get("kind") == "coords":
        return coords(case)
    S = solve.S()
    nx, ny, hk, tier = case["nx"], case["ny"], case["halo"], case["tier"]
    rng = gen.rng_for(case["seed"], "C11", nx, ny, hk)
    z, prof = column()
    dx, dy = 4.0, 3.0
    dom = (nx * dx, ny * dy)
    halo = {"zero": 0.0, "none": None, "0.7dx": 0.7 * dx, "1.6dx": 1.6 * dx, "2dx": 2 * dx}[hk]
    heff = max(dom) if halo is None else halo
    px, py = int(heff / (dom[0] / nx)), int(heff / (dom[1] / ny))
    nxe, nye = nx + 2 * px, ny + 2 * py
    viol, sigs, buckets = [], [], {}
    counters = {"tuples": 0, "accepted": 0, "raised_ValueError": 0, "raised_IndexError": 0, "solver_calls": 0, "lowpass_checks": 0,
                "padcrop_checks": 0, "overrequest_checks": 0}
    resid = {"lowpass": 0.0, "padcrop": 0.0}
    q0 = rng.normal(size=(ny, nx))
    qpad = np.pad(q0, ((py, py), (px, px)))
    domp = (dom[0] + 2 * px * dx, dom[1] + 2 * py * dy)
    lv = [1, 4]
    sample = None

    def call(q, d, modes, h, fp, mp):
        counters["solver_calls"] += 1
        try:
            g, c, f = S(q, z, prof, d, lv, modes=modes, halo=h, precision="double", footprint=fp, meas_pt=mp)
            return ("ok", g, np.asarray(c), np.asarray(f))
        except (ValueError, IndexError) as e:
            return (type(e).__name__, str(e)[:80])

    def call_lv0(q, d, modes, h, fp, mp):
        counters["solver_calls"] += 1
        try:
            g, c, f = S(q, z, prof, d, 0, modes=modes, halo=h, precision="double", footprint=fp, meas_pt=mp)
            return ("ok", g, np.asarray(c), np.asarray(f))
        except (ValueError, IndexError) as e:
            return (type(e).__name__, str(e)[:80])

    def over(n):
        return n + 2 + n % 2

    mp = (2 * dx, 1 * dy)
    # dispersion runs: no re-centring, or re-centred on a point west and south of the map (a mast beside the mapped area; on even grids,
    # where the window centre is a node)
    mpd = (-1.25 * dx, -2.5 * dy) if (nx % 2 == 0 and ny % 2 == 0 and (nx + ny) % 4 == 0) else (0.0, 0.0)   # (never a whole number of cells: the padded twin must not land on the sentinel (0, 0))
    if mpd != (0.0, 0.0):
        buckets["dispersion_recentred_on_a_point_off_the_map"] = 1
    for fp in (False, True):
        full = call(q0, dom, (over(nxe), over(nye)), halo, fp, mp if fp else mpd)
        fullpad = call(qpad, domp, (over(nxe), over(nye)), 0.0, fp, (mp[0] + px * dx, mp[1] + py * dy) if fp else ((mpd[0] + px * dx, mpd[1] + py * dy) if mpd != (0.0, 0.0) else (0.0, 0.0)))
        if full[0] != "ok" or fullpad[0] != "ok":
            viol.append({"what": "over_request_rejected", "tuple": (nx, ny, hk, fp), "outcome": full[:2] if full[0] != "ok" else fullpad[:2]})
            continue
        modes_range = MODES if tier == "quick" else range(2, 17, 2)
        for mx in modes_range:
            for my in modes_range:
                if tier == "quick" and (mx // 2 + 2 * (my // 2) + nx + ny + int(fp)) % 4 != 0:
                    continue
                counters["tuples"] += 1
                tup = (nx, ny, hk, mx, my, "footprint" if fp else "dispersion")
                r = call(q0, dom, (mx, my), halo, fp, mp if fp else mpd)
                if r[0] != "ok":
                    counters[f"raised_{r[0]}"] += 1
                    buckets[f"raised:{r[0]}"] = buckets.get(f"raised:{r[0]}", 0) + 1
                    # an over-request on both axes must never be rejected
                    if mx >= nxe and my >= nye:
                        viol.append({"what": "over_request_rejected", "tuple": tup, "outcome": r})
                    continue
                counters["accepted"] += 1
                _, g, c, f = r
                X, Y, Z = g
                # (a) shape and coordinates
                if c.shape != (2, ny, nx) or f.shape != (2, ny, nx):
                    viol.append({"what": "output_shape_differs_from_input_grid", "tuple": tup, "got": c.shape, "expected": (2, ny, nx),
                                 "padded": (nxe, nye)})
                    continue
                ex = np.arange(nx) * (dom[0] / nx)
                ey = np.arange(ny) * (dom[1] / ny)
                if X.shape != (2, ny, nx) or not (np.allclose(X[0, 0, :], ex, rtol=0, atol=1e-12) and np.allclose(Y[0, :, 0], ey, rtol=0, atol=1e-12)
                                                  and np.all(X == X[0:1, 0:1, :]) and np.all(Y == Y[0:1, :, 0:1])):
                    viol.append({"what": "output_coordinates", "tuple": tup})
                clamp_both = mx > nxe or my > nye  # the code's documented reading: both set to the padded size
                # (e) surface level: with every mode of the padded grid retained the flux at z0 IS the source (dispersion) / a unit
                # pulse in the tower's cell (footprint) - exact, and independent of any second run of the same code
                if clamp_both or (mx == nxe and my == nye):
                    counters["surface_identity_checks"] = counters.get("surface_identity_checks", 0) + 1
                    r0 = call_lv0(q0, dom, (mx, my), halo, fp, mp if fp else (0.0, 0.0))
                    if r0[0] == "ok":
                        f0 = r0[3]
                        if fp:
                            exp0 = np.zeros((ny, nx))
                            exp0[1, 2] = 1.0
                        else:
                            exp0 = q0
                        e0 = float(np.max(np.abs(f0 - exp0))) / max(float(np.max(np.abs(exp0))), 1e-300)
                        resid["surface_identity"] = max(resid.get("surface_identity", 0.0), e0)
                        if f0.shape != exp0.shape or e0 > 1e-11:
                            viol.append({"what": "surface_flux_is_not_the_source_with_all_modes_retained", "tuple": tup, "rel": e0, "padded": (nxe, nye)})
                trunc = (not clamp_both) and (mx < nxe or my < nye)
                # (d) over-request / mixed request
                if mx >= nxe and my >= nye:
                    counters["overrequest_checks"] += 1
                    if not (np.array_equal(c, full[2]) and np.array_equal(f, full[3])):
                        viol.append({"what": "over_request_differs_from_exact_request", "tuple": tup, "padded": (nxe, nye),
                                     "maxdiff": float(np.max(np.abs(f - full[3])))})
                elif clamp_both:
                    counters["overrequest_checks"] += 1
                    same_full = np.array_equal(c, full[2]) and np.array_equal(f, full[3])
                    ok = same_full
                    if not ok:
                        cm = (min(mx, nxe), min(my, nye))
                        if cm[0] % 2 == 0 and cm[1] % 2 == 0:
                            r2 = call(q0, dom, cm, halo, fp, mp if fp else mpd)
                            ok = r2[0] == "ok" and np.allclose(r2[3], f, rtol=0, atol=1e-12 * np.max(np.abs(f))) and np.allclose(r2[2], c, rtol=0, atol=1e-12 * np.max(np.abs(c)))
                    if not ok:
                        viol.append({"what": "mixed_over_request_is_neither_reading", "tuple": tup, "padded": (nxe, nye)})
                # (c) registration under a halo: explicit pad / halo = 0 / crop at the same modes
                if px or py:
                    rp = call(qpad, domp, (mx, my), 0.0, fp, (mp[0] + px * dx, mp[1] + py * dy) if fp else ((mpd[0] + px * dx, mpd[1] + py * dy) if mpd != (0.0, 0.0) else (0.0, 0.0)))
                    counters["padcrop_checks"] += 1
                    if rp[0] != "ok":
                        viol.append({"what": "halo_accepted_but_padded_equivalent_rejected", "tuple": tup, "outcome": rp})
                    else:
                        if rp[2].shape != (2, nye, nxe):
                            viol.append({"what": "output_shape_differs_from_input_grid", "tuple": tup + ("explicit pad",), "got": rp[2].shape,
                                         "expected": (2, nye, nxe)})
                        else:
                            for nm, a, b_ in (("conc", c, rp[2]), ("flx", f, rp[3])):
                                e = solve.relerr(a, b_[:, py : py + ny, px : px + nx], scale=float(np.max(np.abs(b_))) or 1.0)
                                resid["padcrop"] = max(resid["padcrop"], e)
                                if not e <= 1e-9:
                                    viol.append({"what": "misregistered_under_halo", "tuple": tup, "field": nm, "rel": e, "padded": (nxe, nye)})
                    ref_c, ref_f, big = (rp[2], rp[3], True) if rp[0] == "ok" and rp[2].shape == (2, nye, nxe) else (None, None, False)
                    refull_c, refull_f = fullpad[2], fullpad[3]
                else:
                    ref_c, ref_f, big = c, f, True
                    refull_c, refull_f = full[2], full[3]
                # (b) low-pass relation on the periodic (padded) grid
                if trunc and big:
                    counters["lowpass_checks"] += 1
                    mask = solve.spectrum_mask(nye, nxe, my, mx)
                    for nm, a, b_ in (("conc", ref_c, refull_c), ("flx", ref_f, refull_f)):
                        A, B = np.fft.fft2(a), np.fft.fft2(b_)
                        e = float(np.max(np.abs((A - B)[:, mask]))) / (float(np.max(np.abs(B))) or 1.0)
                        resid["lowpass"] = max(resid["lowpass"], e)
                        if not e <= 1e-9:
                            viol.append({"what": "truncation_changes_component_inside_cutoff", "tuple": tup, "field": nm, "rel": e, "padded": (nxe, nye)})
                    # (f) ... and what lies strictly beyond the cut-off of an axis along which fewer modes were requested than the padded
                    # grid holds is removed (a request that equals the padded size along one axis is not an over-request: the other
                    # axis is still truncated)
                    IXf, IYf = np.meshgrid(np.fft.fftfreq(nxe, 1.0 / nxe), np.fft.fftfreq(nye, 1.0 / nye))
                    beyond = ((np.abs(IXf) > mx / 2) & (mx < nxe)) | ((np.abs(IYf) > my / 2) & (my < nye))
                    if beyond.any():
                        counters["beyond_cutoff_checks"] = counters.get("beyond_cutoff_checks", 0) + 1
                        for nm, a in (("conc", ref_c), ("flx", ref_f)):
                            A = np.fft.fft2(a)
                            e = float(np.max(np.abs(A[:, beyond]))) / (float(np.max(np.abs(A))) or 1.0)
                            resid["beyond_cutoff"] = max(resid.get("beyond_cutoff", 0.0), e)
                            if not e <= 1e-12:
                                viol.append({"what": "component_beyond_cutoff_survives_truncation", "tuple": tup, "field": nm, "rel": e, "padded": (nxe, nye)})
                if trunc or px or py or nx % 2 or ny % 2:
                    sigs.append("|".join(map(str, tup)))
                if sample is None and trunc:
                    sample = {"tuple": tup, "padded": (nxe, nye), "pad": (px, py)}
    buckets[f"halo:{hk}"] = 1
    buckets[f"parity:{'even' if nx % 2 == 0 else 'odd'}x{'even' if ny % 2 == 0 else 'odd'}"] = 1
    return {"evals": counters["tuples"], "nontrivial": bool(sigs), "sig": sigs, "buckets": buckets, "resid": resid, "counters": counters,
            "violations": viol, "sample": sample}


def coords(case):
    import numpy as np
    from vlib import gen, solve

    S = solve.S()
    rng = gen.rng_for(case["seed"], "C11coords", case["idx"])
    z, prof = column()
    viol, sigs = [], []
    n = 0
    worst = 0.0
    EXT = [100.0, 120.0, 300.0, 1000.0, 250.0, 50.0, 0.3, 1.0, 7.0, 1e4, 75.5, 33.3]
    for k in range(64):
        ext = float(rng.choice(EXT)) if rng.random() < 0.7 else float(10 ** rng.uniform(-1, 4))
        cnt = int(rng.integers(2, 65))
        oth_ext, oth_cnt = float(rng.choice(EXT)), int(rng.integers(2, 7))
        along_x = bool((k + case["idx"]) % 2)
        (xmax, nx), (ymax, ny) = ((ext, cnt), (oth_ext, oth_cnt)) if along_x else ((oth_ext, oth_cnt), (ext, cnt))
        fp = bool(rng.random() < 0.5)
        halo = float(rng.choice([0.0, 0.4 * min(xmax / nx, ymax / ny)]))
        lv = [0, 3] if k % 3 else 4
        q0 = rng.normal(size=(ny, nx))
        if k % 5 == 2:  # an all-zero source (night-time step) under a halo of one to three cells
            q0 = np.zeros((ny, nx))
            cmax, cmin = max(xmax / nx, ymax / ny), min(xmax / nx, ymax / ny)
            # (a halo measured in the coarser cell pads the finer axis by thousands of cells when the two extents differ by orders of
            # magnitude - gigabytes per worker; then the halo is measured in the finer cell and pads that axis only)
            halo = float(rng.uniform(1.0, 3.5) * (cmax if cmax / cmin <= 20.0 else cmin))
        tup = dict(domain=(xmax, ymax), cells=(nx, ny), footprint=fp, halo=halo, levels=lv, zero_source=bool(not q0.any()))
        try:
            g, c, f = S(q0, z, prof, (xmax, ymax), lv, halo=halo, precision="double", footprint=fp,
                        meas_pt=((nx // 2) * (xmax / nx), (ny // 2) * (ymax / ny)) if fp else (0.0, 0.0))
        except (ValueError, IndexError):
            continue
        n += 1
        c, f = np.asarray(c), np.asarray(f)
        X, Y, Z = (np.asarray(a) for a in g)
        shp = ((2, ny, nx) if np.ndim(lv) else (ny, nx))
        if c.shape != shp or f.shape != shp:
            viol.append({"what": "output_shape_differs_from_input_grid", "tuple": tup, "got": c.shape, "expected": shp})
            continue
        if X.shape != shp or Y.shape != shp or Z.shape != shp:
            viol.append({"what": "output_coordinates", "tuple": tup, "detail": "coordinate arrays do not have the shape of the fields",
                         "coordinate_shapes": (X.shape, Y.shape, Z.shape), "field_shape": shp})
            continue
        ex, ey = np.arange(nx) * (xmax / nx), np.arange(ny) * (ymax / ny)
        X2, Y2 = X.reshape((-1, ny, nx)), Y.reshape((-1, ny, nx))
        e = max(float(np.max(np.abs(X2 - ex[None, None, :]))) / xmax, float(np.max(np.abs(Y2 - ey[None, :, None]))) / ymax)
        worst = max(worst, e)
        if not e <= 1e-12:
            viol.append({"what": "output_coordinates", "tuple": tup, "rel": e})
        zz = np.asarray(z)[lv]
        if not np.array_equal(Z.reshape((-1, ny, nx))[:, 0, 0], np.atleast_1d(zz)):
            viol.append({"what": "output_coordinates", "tuple": tup, "detail": "Z is not the height of the requested levels"})
        sigs.append(f"coords|{xmax:.6g}|{nx}|{ymax:.6g}|{ny}")
    return {"evals": n, "nontrivial": bool(sigs), "sig": sigs, "buckets": {"coordinate_clause": 1}, "resid": {"coordinates_rel": worst},
            "counters": {"coordinate_pairs": n}, "violations": viol, "sample": {"kind": "coords", "pairs": n}}


def finalize(results, tier):
    n = sum(r.get("counters", {}).get("tuples", 0) for r in results)
    return {"coverage": {"exhaustive": tier == "thorough", "tuples_enumerated": n}}
