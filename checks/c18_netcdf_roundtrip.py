"""C18 - NetCDF export/import is lossless and keeps every label attached to its data.

Reference-model monitor: the in-memory result set is the model; every (time,
tower, level) slice, coordinate and label read back from the file (positionally
and through .sel) is compared with it.  Fields carry self-identifying serial
numbers so that any misplacement names itself.
"""

ID = "C18"
LEVEL = "exploration"
RULE = (
    "synthetic result sets over towers 1..4 x steps 1..4 x {2-D, 3-D} x value classes {serial-number fields, random +-, denormals, "
    "1e+-300, exact zeros, float32 inputs} x timestamps {ISO strings, step indices, integer hours crossing 10, free-text labels, descending dates} x forcing {ustar, z0} x tower names not in sorted order with distinct "
    "lat/lon/height, heights homogeneous or heterogeneous across towers/steps; plus solver-produced sets from run_bldfm_multitower "
    "(ustar and z0 forcing, output_levels, both precisions).  non-trivial = >= 2 slices (towers*steps*levels); distinct = distinct "
    "(towers, steps, dims, value class, timestamp kind, forcing, source, idx)"
)
ASSUMPTIONS = [
    "float32 inputs are compared after the exact widening to float64 (the file stores double)",
    "result dicts are keyed in configuration order, as every driver of the repository returns them",
    "for 3-D sets with different heights per tower/step the per-slice height is read from the (time, tower, z) variable "
    "'level_height'; the single z coordinate holds the heights of the first result",
]
MIN_NONTRIVIAL = {"quick": 60, "thorough": 1920}
TIMEOUT = {"quick": 900, "thorough": 7000}


def cases(tier, seed):
    out = []
    n = 96 if tier == "quick" else 11520
    for i in range(n):
        out.append({"seed": seed, "idx": i, "source": "synthetic", "_cost": 1})
    for i in range(8 if tier == "quick" else 48):
        out.append({"seed": seed, "idx": i, "source": "solver", "_cost": 6})
    return out


def bits_equal(a, b):
    import numpy as np

    a = np.ascontiguousarray(np.asarray(a, dtype=np.float64))
    b = np.ascontiguousarray(np.asarray(b, dtype=np.float64))
    return a.shape == b.shape and np.array_equal(a.view(np.uint64), b.view(np.uint64))


def synthetic(rng):
    import numpy as np
    from bldfm.config_parser import parse_config_dict

    nt, ns = int(rng.integers(1, 5)), int(rng.integers(1, 5))
    three = bool(rng.random() < 0.5)
    nl = int(rng.integers(2, 5)) if three else 1
    ny, nx = int(rng.integers(2, 9)), int(rng.integers(2, 9))
    dx, dy = float(rng.uniform(1, 30)), float(rng.uniform(1, 30))
    vclass = str(rng.choice(["serial", "random", "denormal", "huge", "tiny", "zeros", "float32", "negzero_nan_free", "max"]))
    tskind = str(rng.choice(["str", "int", "int_hours", "labels", "descending", "numeric_strings", "datetimes", "datetimes_tz", "datetimes_subsecond"]))
    # the saved result set need not be the whole configured series: steps solved one at a time for chosen indices, a slice of a longer run
    subset = bool(rng.random() < 0.25)
    ns_saved = ns
    if subset:
        ns = ns + int(rng.integers(2, 5))
    forcing = str(rng.choice(["ustar", "z0"]))
    hetero = bool(three and rng.random() < 0.5)
    names = [str(x) for x in rng.permutation(["zeta", "Alpha", "mid", "beta-2"])[:nt]]
    towers = [{"name": nm, "lat": float(50 + 0.001 * (k + 1) + rng.uniform(0, 1e-4)), "lon": float(11 - 0.002 * (k + 1)), "z_m": float(3 + 2.5 * k)} for k, nm in enumerate(names)]
    met = {"mol": [float(-50.0 - 7 * i) for i in range(ns)], "wind_speed": [float(2.0 + 0.5 * i) for i in range(ns)],
           "wind_dir": [float(200.0 + 11 * i) for i in range(ns)]}
    if rng.random() < 0.3:  # directions as loggers and arithmetic produce them: exactly 360, negative, beyond a full turn
        met["wind_dir"] = [float(rng.choice([360.0, -15.0, 450.0, 359.999, 720.0, -0.0])) for _ in range(ns)]
    if forcing == "ustar":
        met["ustar"] = [float(0.3 + 0.05 * i) for i in range(ns)]
    else:
        met["z0"] = 0.05
    if tskind == "str":
        met["timestamps"] = [f"2024-03-0{i + 1}T1{i}:30" for i in range(ns)]
    elif tskind == "int_hours":  # integer labels whose str() does not sort in step order
        met["timestamps"] = [8 + i for i in range(ns)]
    elif tskind == "labels":
        met["timestamps"] = ["morning", "noon", "evening", "night", "dawn", "dusk", "late", "early"][:ns]
    elif tskind == "descending":
        met["timestamps"] = [f"2024-03-{28 - i:02d}" for i in range(ns)]
    elif tskind == "numeric_strings":  # labels that read as numbers but are not written the way str(number) writes them (HHMM, run ids)
        met["timestamps"] = [str(v) for v in rng.permutation(["0030", "007", "1e3", "12.0", "0900", "+5", "1_0", "00", "2.50"])[:ns]]
    elif tskind == "datetimes":        # what PyYAML makes of an unquoted date-time
        import datetime as _dt

        met["timestamps"] = [_dt.datetime(2024, 3, 1 + i, 9, 30) for i in range(ns)]
    elif tskind == "datetimes_tz":
        # timezone-aware stamps over the night daylight saving ends: the same wall-clock reading twice, told apart by the offset only
        import datetime as _dt

        tz2, tz1 = _dt.timezone(_dt.timedelta(hours=2)), _dt.timezone(_dt.timedelta(hours=1))
        allts = [_dt.datetime(2024, 10, 27, 2, 0, tzinfo=tz2), _dt.datetime(2024, 10, 27, 2, 0, tzinfo=tz1), _dt.datetime(2024, 10, 27, 2, 30, tzinfo=tz2),
                 _dt.datetime(2024, 10, 27, 2, 30, tzinfo=tz1)] + [_dt.datetime(2024, 10, 27, 3 + i, 0, tzinfo=tz1) for i in range(8)]
        met["timestamps"] = allts[:ns]
    elif tskind == "datetimes_subsecond":
        import datetime as _dt

        met["timestamps"] = [_dt.datetime(2024, 3, 1, 9, 30, 0, 250000 * i) if i < 4 else _dt.datetime(2024, 3, 1, 9, 30, i) for i in range(ns)]
    cfg = parse_config_dict({
        # a quarter of the configurations have no geographic reference origin (it is optional)
        "domain": dict({"nx": nx, "ny": ny, "xmax": nx * dx, "ymax": ny * dy, "nz": 4}, **({} if (nx + ny + nt) % 4 == 0 else {"ref_lat": 50.0, "ref_lon": 11.0})),
        "towers": towers, "met": met, "solver": {"closure": str(rng.choice(["MOST", "MOSTM", "CONSTANT"]))},
    })
    x, y = np.arange(nx) * dx, np.arange(ny) * dy
    lorder = str(rng.choice(["ascending", "ascending", "descending", "shuffled"]))
    keyorder = bool(rng.random() < 0.3)
    sentinels = bool(rng.random() < 0.3)
    lperm = rng.permutation(nl)
    results = {}
    saved = list(range(ns))
    if subset:
        start = int(rng.integers(1, ns - ns_saved + 1))
        saved = list(range(start, start + ns_saved)) if rng.random() < 0.5 else sorted(int(v) for v in rng.choice(np.arange(1, ns), size=ns_saved, replace=False))
    for ti, tw in enumerate(cfg.towers):
        lst = []
        for t in saved:
            if three:
                zl = np.sort(rng.uniform(0.1, 10, nl)) if (hetero and (ti, t) != (0, saved[0])) else np.linspace(0.5, 4.0, nl)
                if hetero and (ti, t) == (0, saved[0]):
                    zl = np.linspace(0.5, 4.0, nl)
                if lorder == "descending":      # output levels requested top-down / in any order: heights come in that order
                    zl = zl[::-1].copy()
                elif lorder == "shuffled":
                    zl = zl[lperm]
                Z, Y, X = np.meshgrid(zl, y, x, indexing="ij")
                shape = (nl, ny, nx)
            else:
                Z, Y, X = np.meshgrid(np.array([2.0 + ti]), y, x, indexing="ij")
                X, Y, Z = X[0], Y[0], Z[0]
                shape = (ny, nx)

            def field(tag):
                if vclass == "serial":
                    lv = np.arange(nl).reshape(-1, 1, 1) if three else 0
                    base = tag * 1e6 + t * 1e4 + ti * 1e2 + lv
                    return (np.zeros(shape) + base + rng.random(shape) * 0.5) * (1 if tag == 1 else -1)
                if vclass == "random":
                    return rng.normal(size=shape) * 10 ** rng.uniform(-3, 3)
                if vclass == "denormal":
                    return rng.random(shape) * 5e-310 * rng.choice([-1, 1], size=shape)
                if vclass == "huge":
                    return rng.normal(size=shape) * 1e300
                if vclass == "max":   # finite values whose sum is not (the top of the double range)
                    return np.where(rng.random(shape) < 0.5, 1e308, np.finfo(np.float64).max / 2) * rng.choice([1.0, 1.0, -1.0])
                if vclass == "tiny":
                    return rng.normal(size=shape) * 1e-300
                if vclass == "zeros":
                    return rng.normal(size=shape) * (rng.random(shape) < 0.3)
                if vclass == "float32":
                    return rng.normal(size=shape).astype(np.float32)
                return np.where(rng.random(shape) < 0.2, -0.0, rng.normal(size=shape))

            st = cfg.met.get_step(t)
            if keyorder:   # a result assembled by hand / re-read from elsewhere: the same entries in another key order
                ks = list(st)
                st = {k_: st[k_] for k_ in [ks[i_] for i_ in rng.permutation(len(ks))]}
            cf, ff = field(1), field(2)
            if sentinels and cf.dtype == np.float64:
                # values that file formats like to reserve as "missing": they are data here and must come back as they went in
                for arr_ in (cf, ff):
                    flat_ = arr_.reshape(-1)
                    pos_ = rng.choice(flat_.size, size=min(4, flat_.size), replace=False)
                    flat_[pos_] = rng.choice([-9999.0, -999.0, 9.969209968386869e36, 1e20, -32767.0, 99999.0], size=len(pos_))
            lst.append({"grid": (X, Y, Z), "conc": cf, "flx": ff, "tower_name": tw.name, "tower_xy": (tw.x, tw.y),
                        "timestamp": st["timestamp"], "params": st})
        results[tw.name] = lst
    desc = dict(towers=nt, steps=len(saved), dims=3 if three else 2, levels=nl, grid=(ny, nx), values=vclass, timestamps=tskind, forcing=forcing,
                heights_heterogeneous=hetero, names=names, level_order=lorder if three else "-",
                saved_steps="all" if not subset else f"{saved} of {ns} configured")
    return cfg, results, desc


def from_solver(rng):
    import numpy as np
    import bldfm
    from bldfm.config_parser import parse_config_dict

    nt, ns = int(rng.integers(1, 4)), int(rng.integers(1, 4))
    three = bool(rng.random() < 0.6)
    forcing = str(rng.choice(["ustar", "z0"]))
    same_h = bool(rng.random() < 0.5)
    names = [str(x) for x in rng.permutation(["north", "East", "centre"])[:nt]]
    towers = [{"name": nm, "lat": 50.0 + 0.0002 * (k + 1), "lon": 11.0 + 0.0003 * (k + 1), "z_m": 4.0 if same_h else 4.0 + 1.5 * k} for k, nm in enumerate(names)]
    met = {"mol": [-80.0 - 10 * i for i in range(ns)], "wind_speed": [3.0 + 0.4 * i for i in range(ns)], "wind_dir": [30.0 + 100 * i for i in range(ns)]}
    if forcing == "ustar":
        met["ustar"] = [0.3 + 0.04 * i for i in range(ns)]
    else:
        met["z0"] = 0.08
    dom = {"nx": 12, "ny": 10, "xmax": 120.0, "ymax": 80.0, "nz": 6, "modes": [12, 10], "halo": 0.0, "ref_lat": 50.0, "ref_lon": 11.0}
    if three:
        dom["output_levels"] = [[1, 3, 6], [6, 3, 1], [3, 6, 1], [6, 1, 3]][int(rng.integers(4))]
    prec = str(rng.choice(["single", "double"]))
    cfg = parse_config_dict({"domain": dom, "towers": towers, "met": met,
                             "solver": {"closure": "MOST", "footprint": True, "precision": prec}})
    results = bldfm.run_bldfm_multitower(cfg)
    hetero = False
    if three:
        z00 = results[names[0]][0]["grid"][2][:, 0, 0]
        hetero = any(not np.array_equal(r["grid"][2][:, 0, 0], z00) for lst in results.values() for r in lst)
    desc = dict(towers=nt, steps=ns, dims=3 if three else 2, values=f"solver_{prec}", timestamps="int", forcing=forcing,
                heights_heterogeneous=bool(hetero), names=names, levels=3 if three else 1, grid=(10, 12))
    return cfg, results, desc


def compare_loaded(ds, results, cfg, bad, counters):
    """What was loaded against the in-memory result set that was saved: coordinates, labels, every slice (positional and by
    label), per-slice heights, tower metadata, per-step met values, global attributes.  Also used by vlib.shadow on every file the
    repository's own tests / examples export."""
    import numpy as np

    for k_ in ("slices_compared", "sel_lookups", "labels_compared"):
        counters.setdefault(k_, 0)
    names = list(results.keys())
    first = results[names[0]][0]
    three = first["flx"].ndim == 3
    nlev = first["flx"].shape[0] if three else 1
    # ---- coordinates
    X, Y, Z = first["grid"]
    x = X[0, 0, :] if three else X[0, :]
    y = Y[0, :, 0] if three else Y[:, 0]
    if not bits_equal(ds["x"].values, x) or not bits_equal(ds["y"].values, y):
        bad("xy_coordinates_changed")
    if list(ds["tower"].values) != names:
        bad("tower_names_changed", got=[str(v) for v in ds["tower"].values])
    exp_ts = [str(r["timestamp"]) for r in results[names[0]]]
    if [str(v) for v in ds["time"].values] != exp_ts:
        bad("timestamps_changed", got=[str(v) for v in ds["time"].values], expected=exp_ts)
    counters["labels_compared"] += len(names) + len(exp_ts)
    if three:
        if "z" not in ds.coords or not bits_equal(ds["z"].values, Z[:, 0, 0]):
            bad("z_coordinate_changed", got=ds["z"].values.tolist() if "z" in ds else None, expected=Z[:, 0, 0].tolist())
    # ---- fields: positional and by label
    for ti, nm in enumerate(names):
        tw = cfg.towers[ti]
        for k_, attr in (("tower_lat", "lat"), ("tower_lon", "lon"), ("tower_z", "z_m")):
            got = float(ds[k_].sel(tower=nm).values)
            counters["labels_compared"] += 1
            if tw.name != nm or got != float(getattr(tw, attr)):
                bad("tower_metadata_attached_to_wrong_tower", tower=nm, field=k_, got=got, expected=float(getattr(tw, attr)))
        for t, r in enumerate(results[nm]):
            for var, key in (("footprint", "flx"), ("concentration", "conc")):
                counters["slices_compared"] += nlev
                pos = ds[var].values[t, ti]
                if not bits_equal(pos, r[key]):
                    bad("field_not_bit_identical", var=var, tower=nm, step=t, access="positional",
                        maxdiff=float(np.nanmax(np.abs(np.asarray(pos, dtype=float) - np.asarray(r[key], dtype=float)))) if pos.shape == np.shape(r[key]) else "shape")
                sel = ds[var].sel(tower=nm, time=str(r["timestamp"])).values
                counters["sel_lookups"] += 1
                if not bits_equal(sel, r[key]):
                    bad("sel_returns_other_tower_or_step", var=var, tower=nm, step=t)
            # per-slice height of 3-D outputs
            if three:
                zr = r["grid"][2][:, 0, 0]
                if "level_height" in ds:
                    got = ds["level_height"].sel(tower=nm, time=str(r["timestamp"])).values
                else:
                    got = ds["z"].values
                if not bits_equal(got, zr):
                    bad("slice_height_lost", tower=nm, step=t, got=np.asarray(got).tolist(), expected=zr.tolist(),
                        has_level_height="level_height" in ds)
            # met values per step
            if ti == 0:
                for var in ("ustar", "mol", "wind_speed", "wind_dir"):
                    exp = r["params"].get(var)
                    got = float(ds[var].sel(time=str(r["timestamp"])).values)
                    counters["labels_compared"] += 1
                    if exp is None:
                        if not np.isnan(got):
                            bad("missing_met_value_not_nan", var=var, step=t, got=got)
                    elif got != float(exp):
                        bad("met_value_changed_or_misattached", var=var, step=t, got=got, expected=float(exp))
    if ds.attrs.get("closure") != cfg.solver.closure or float(ds.attrs.get("domain_xmax")) != cfg.domain.xmax or float(ds.attrs.get("domain_ymax")) != cfg.domain.ymax:
        bad("global_attributes_changed", attrs=dict(ds.attrs))


def run_case(case):
    import os
    import warnings

    import numpy as np
    from bldfm.io import save_footprints_to_netcdf, load_footprints_from_netcdf
    from vlib import gen

    rng = gen.rng_for(case["seed"], "C18", case["source"], case["idx"])
    with warnings.catch_warnings():
        warnings.simplefilter("ignore")
        cfg, results, desc = synthetic(rng) if case["source"] == "synthetic" else from_solver(rng)
    viol = []
    counters = {"files": 0, "slices_compared": 0, "sel_lookups": 0, "labels_compared": 0}

    def bad(what, **d):
        viol.append(dict(what=what, **d, set=desc))

    path = case.get("_path") or os.path.abspath(f"c18_{case['source']}_{case['idx']}.nc")
    sibling = None
    if case["idx"] % 3 == 1 and not case.get("_second"):
        # file names as a parameter sweep produces them: no .nc ending, dots inside, two exports that differ only after the last dot
        path = os.path.abspath(f"c18_{case['source']}_{case['idx']}_z0_0.05")
        sibling = os.path.abspath(f"c18_{case['source']}_{case['idx']}_z0_0.1")
    try:
        save_footprints_to_netcdf(results, cfg, path)
        if sibling:
            with warnings.catch_warnings():
                warnings.simplefilter("ignore")
                cfg_b, results_b, _ = synthetic(gen.rng_for(case["seed"], "C18sib", case["idx"]))
            save_footprints_to_netcdf(results_b, cfg_b, sibling)
            counters["sibling_exports"] = 1
        after_load = ["nothing", "nothing", "file_removed", "cwd_changed"][case["idx"] % 4] if not sibling and not case.get("_second") and not case.get("_path") else "nothing"
        load_path = path
        if after_load == "cwd_changed":
            load_path = os.path.relpath(path)          # addressed relatively, as scripts do
        ds = load_footprints_from_netcdf(load_path)
        # what happens to the path after the load is not the loaded set's business: the file is deleted (a temporary export), or the
        # process moves to another directory - the fields that are read afterwards are those of the set that was saved
        home_ = os.getcwd()
        if after_load == "file_removed":
            os.unlink(path)
        elif after_load == "cwd_changed":
            os.makedirs("elsewhere", exist_ok=True)
            os.chdir("elsewhere")
        counters[f"after_load:{after_load}"] = counters.get(f"after_load:{after_load}", 0) + 1
    except Exception as e:  # noqa
        bad("save_or_load_raises", exc=repr(e)[:300])
        return {"evals": 1, "nontrivial": True, "sig": str(desc) + str(case["idx"]), "violations": viol, "counters": counters}
    counters["files"] += 1
    try:
        try:
            compare_loaded(ds, results, cfg, bad, counters)
        except (OSError, RuntimeError) as e_:   # the loaded set can no longer be read
            bad("loaded_set_unreadable_after_the_path_changed", exc=f"{type(e_).__name__}: {str(e_)[:200]}", after_load=after_load)
        finally:
            os.chdir(home_)
    except (KeyError, IndexError, ValueError) as e:  # a label, variable or dimension the saved set has is missing from what was loaded
        bad("loaded_dataset_lacks_labels_of_the_saved_set", exc=f"{type(e).__name__}: {str(e)[:200]}")
    finally:
        ds.close()
        if sibling:
            import glob as _glob

            for f_ in _glob.glob(os.path.dirname(path) + f"/c18_{case['source']}_{case['idx']}_z0_0*"):
                try:
                    os.unlink(f_)
                except OSError:
                    pass
        try:
            os.unlink(path)
        except OSError:
            pass
    nsl = desc["towers"] * desc["steps"] * desc["levels"]
    if case["idx"] % 3 == 0 and not case.get("_second"):
        # the same file name used again at once for another result set (a script that overwrites its output): the second
        # round trip must return the second set
        r2 = run_case(dict(case, idx=case["idx"] + 100000, _second=True, _path=path))
        for v in r2.get("violations", []):
            v["history"] = "second result set written to the path of the first within the same process"
        viol.extend(r2.get("violations", []))
        for k_, v_ in r2.get("counters", {}).items():
            counters[k_] = counters.get(k_, 0) + v_
        counters["path_reused"] = counters.get("path_reused", 0) + 1
    b = {f"towers:{desc['towers']}": 1, f"steps:{desc['steps']}": 1, f"dims:{desc['dims']}": 1, f"values:{desc['values']}": 1,
         f"ts:{desc['timestamps']}": 1, f"forcing:{desc['forcing']}": 1, f"source:{case['source']}": 1,
         f"heights:{'heterogeneous' if desc['heights_heterogeneous'] else 'homogeneous'}": 1}
    return {"evals": counters["slices_compared"] + counters["labels_compared"], "nontrivial": nsl >= 2,
            "sig": f"{case['source']}|{desc['towers']}|{desc['steps']}|{desc['dims']}|{desc['values']}|{desc['timestamps']}|{desc['forcing']}|{case['idx']}",
            "buckets": b, "counters": counters, "violations": viol, "sample": desc}


def classify(case, v):
    s = v.get("set", {})
    if v.get("what") == "slice_height_lost" and s.get("heights_heterogeneous") and not v.get("has_level_height"):
        return "z_coord_from_first_result_only"
    return None
