"""C02 - footprint weights reproduce the flux and concentration seen at the tower.

Relation monitor: every footprint call is paired with the forward dispersion run
of the same inputs; sum(q0*F) must equal the forward flux at the tower cell and
sum(q0*G) the forward concentration above background.
"""

ID = "C02"
LEVEL = "exploration"
RULE = (
    "seeded random set-ups (nx, ny even 4..24 and odd with over-requested modes, dx != dy, closures MOST/MOSTM/CONSTANT/OAAHOC + synthetic "
    "anisotropic + constant profiles, inside the conditioning guard G<=18) x halo classes {zero, None/default, sub-cell, commensurate, "
    "commensurate on one axis, incommensurate} x modes {full, truncated, over-requested} x sources {dense, sparse, smooth, impulse, blob} "
    "x on-grid measurement points (corners, (0,0), random) x single/multi level x both precisions; non-trivial = source not constant "
    "and footprint not uniform; distinct = distinct (set-up idx, source, point)"
)
ASSUMPTIONS = [
    "tolerance max(1e-9, 5000*eps*e^G) (double) / 5e-5 (single) of sum|q0| * max|F|: rounding of linear shooting is amplified by e^G",
    "conditioning guard G = sum Re(lambda) dz <= 18 at the largest retained wavenumber (DESIGN section 3)",
]
MIN_NONTRIVIAL = {"quick": 150, "thorough": 12000}
TIMEOUT = {"quick": 900, "thorough": 7000}


def cases(tier, seed):
    from vlib.gen import HALO_CLASSES

    n = 192 if tier == "quick" else 48000
    return [{"seed": seed, "idx": i, "halo_class": HALO_CLASSES[i % len(HALO_CLASSES)]} for i in range(n)]


def run_case(case):
    import numpy as np
    from vlib import gen, solve, purity
    from bldfm import utils as _u

    point_measurement = purity.guarded(_u.point_measurement, "point_measurement")
    rng = gen.rng_for(case["seed"], "C02", case["idx"])
    even = rng.random() < 0.8
    St, nskip = gen.draw_setup(rng, halo_classes=(case["halo_class"],), even=even, nmax=24)
    if St is None:
        return {"evals": 0, "nontrivial": False, "skipped": "no draw inside the conditioning guard", "counters": {"guard_redraws": nskip}}
    nx, ny, dx, dy = St["nx"], St["ny"], St["dx"], St["dy"]
    nz = len(St["z"])
    prec = "double" if rng.random() < 0.7 else "single"
    tol = solve.tol(prec, St["G"], cr=St["cr"])
    analytic = bool(St["pdesc"]["kind"] == "constant" and rng.random() < 0.4)  # the closed-form branch obeys the same identity
    levels, lkind = solve.pick_levels(rng, nz, str(rng.choice(["top", "scalar", "few", "with_top", "shuffled"])))
    nl = solve.nlev(levels)
    viol, sigs = [], []
    resid = {f"flux_{prec}": 0.0, f"conc_{prec}": 0.0}
    counters = {"forward_runs": 0, "footprint_runs": 0, "guard_redraws": nskip}
    pts = [(0, 0), (nx - 1, ny - 1), (int(rng.integers(nx)), int(rng.integers(ny))), (nx // 2, ny // 2)]
    pts = pts[: (2 if St["nxe"] * St["nye"] > 90 * 90 else 4)]
    fps = {}
    for (im, jm) in pts:
        _, G, F = solve.solve(St, np.zeros((ny, nx)), levels, meas_pt=(im * dx, jm * dy), footprint=True, precision=prec, analytic=analytic)
        counters["footprint_runs"] += 1
        fps[(im, jm)] = (solve.as3d(G, nl), solve.as3d(F, nl))
        fps[(im, jm)] += solve.surface_scales(St, np.zeros((ny, nx)), meas_pt=(im * dx, jm * dy), footprint=True, precision=prec)
    desc = gen.describe(St)
    for _ in range(2):
        q0, skind = gen.make_source(rng, ny, nx)
        bg = float(rng.choice([0.0, rng.normal() * 10]))
        _, cf, ff = solve.solve(St, q0, levels, srf_bg_conc=bg, precision=prec, analytic=analytic)
        counters["forward_runs"] += 1
        cf, ff = solve.as3d(cf, nl), solve.as3d(ff, nl)
        for (im, jm), (G, F, sG, sF) in fps.items():
            sa = float(np.sum(np.abs(q0)))
            for k in range(nl):
                lhs_f = float(np.sum(q0 * F[k]))
                lhs_c = float(np.sum(q0 * G[k]))
                if k == 0:
                    # the package's own weighted sum (utils.point_measurement), fed the same values in the memory layouts a caller may
                    # hold them in: C order, Fortran order, a transposed view, a strided view
                    lay = [q0, np.asfortranarray(q0), np.ascontiguousarray(q0.T).T, np.repeat(q0, 2, axis=1)[:, ::2]][(case["idx"] + len(viol)) % 4]
                    Fl = [F[k], np.asfortranarray(F[k])][case["idx"] % 2]
                    pm = float(point_measurement(lay, Fl))
                    counters["point_measurement_calls"] = counters.get("point_measurement_calls", 0) + 1
                    epm = abs(pm - lhs_f) / (sa * (float(np.max(np.abs(F[k]))) or 1.0) or 1.0)
                    resid["point_measurement_vs_weighted_sum"] = max(resid.get("point_measurement_vs_weighted_sum", 0.0), epm)
                    if not epm <= (1e-12 if prec == "double" else 1e-6):
                        viol.append({"what": "point_measurement_is_not_the_weighted_sum", "rel": epm, "source_layout": ["C", "F", "transposed view", "strided view"][(case["idx"] + len(viol)) % 4],
                                     "point_cell": (im, jm), "source": skind, "setup": desc})
                sf = sa * max(float(np.max(np.abs(F[k]))), sF) or 1.0
                sc = sa * max(float(np.max(np.abs(G[k]))), sG) + abs(bg) or 1.0  # the background is stored in the same (rounded) mean mode
                ef = abs(lhs_f - float(ff[k, jm, im])) / sf
                ec = abs(lhs_c - (float(cf[k, jm, im]) - bg)) / sc
                resid[f"flux_{prec}"] = max(resid[f"flux_{prec}"], ef)
                resid[f"conc_{prec}"] = max(resid[f"conc_{prec}"], ec)
                if ef > tol or ec > tol:
                    viol.append({"what": "footprint_sum_differs_from_forward_run", "which": "flux" if ef > tol else "concentration",
                                 "rel": max(ef, ec), "tol": tol, "point_cell": (im, jm), "level": k, "source": skind, "bg": bg,
                                 "precision": prec, "levels": levels, "setup": desc})
            if np.ptp(q0) > 0 and np.ptp(F[0]) > 0:
                sigs.append(f"{case['idx']}|{skind}|{im},{jm}")
    # the forward run centred on the tower (the way the configuration-driven interface runs it: the measurement point is handed over and
    # the value is read at the centre of the returned window), for a flux map whose outermost ring of cells is zero
    if nx % 2 == 0 and ny % 2 == 0 and nx >= 6 and ny >= 6:
        cand = [p_ for p_ in fps if p_ != (0, 0)]
        if cand:
            im, jm = cand[int(rng.integers(len(cand)))]
            G, F, sG, sF = fps[(im, jm)]
            qz, skz = gen.make_source(rng, ny, nx)
            qz = np.array(qz, dtype=float)
            qz[0, :] = qz[-1, :] = 0.0
            qz[:, 0] = qz[:, -1] = 0.0
            _, cc, fc = solve.solve(St, qz, levels, srf_bg_conc=0.0, precision=prec, analytic=analytic, meas_pt=(im * dx, jm * dy))
            counters["forward_runs_centred_on_the_tower"] = counters.get("forward_runs_centred_on_the_tower", 0) + 1
            cc, fc = solve.as3d(cc, nl), solve.as3d(fc, nl)
            sa = float(np.sum(np.abs(qz))) or 1.0
            for k in range(nl):
                ef = abs(float(np.sum(qz * F[k])) - float(fc[k, ny // 2, nx // 2])) / (sa * max(float(np.max(np.abs(F[k]))), sF) or 1.0)
                ec = abs(float(np.sum(qz * G[k])) - float(cc[k, ny // 2, nx // 2])) / (sa * max(float(np.max(np.abs(G[k]))), sG) or 1.0)
                resid[f"centred_forward_run_{prec}"] = max(resid.get(f"centred_forward_run_{prec}", 0.0), ef, ec)
                if not (ef <= tol and ec <= tol):
                    viol.append({"what": "footprint_sum_differs_from_forward_run", "which": "centre value of the forward run centred on the tower", "rel": max(ef, ec), "tol": tol,
                                 "point_cell": (im, jm), "level": k, "source": skz + " with a zero rim", "precision": prec, "levels": levels, "setup": desc})
    b = {f"halo:{St['halo_class']}": 1, f"modes:{St['mode_class']}": 1, f"prec:{prec}": 1, f"profiles:{St['pdesc'].get('closure', St['pdesc']['kind'])}": 1,
         f"levels:{lkind}": 1, "analytic" if analytic else "numeric": 1, f"parity:{'even' if nx % 2 == 0 and ny % 2 == 0 else 'odd'}": 1, gen.gbucket(St["G"]): 1}
    return {"evals": counters["forward_runs"] * len(pts) * nl, "nontrivial": bool(sigs), "sig": sigs, "buckets": b, "resid": resid,
            "counters": counters, "violations": viol, "sample": {"setup": desc, "points": pts, "levels": levels, "precision": prec}}


def finalize(results, tier):
    inc = []
    classes = {b for r in results for b in r.get("buckets", {}) if b.startswith("halo:")}
    for need in ("halo:incommensurate", "halo:commensurate_one_axis", "halo:zero"):
        if need not in classes:
            inc.append(f"no non-trivial case with {need} was executed")
    return {"inconclusive": inc}
