"""C17 - tower geolocation: local metres <-> lat/lon are mutual inverses, well oriented.

Reference-model monitor: haversine distance and great-circle initial bearing
(written here, math only) next to every observed conversion.
"""

import math

ID = "C17"
LEVEL = "exploration"
RULE = (
    "stratified (lat bands x lon bands x distance decades x bearing octants, plus poles of the range: |lat|=60, lon near "
    "+-180, cardinal bearings, zero offset) + seeded random reference points with |lat|<=60, any longitude, offsets 0.5 m..5 km; "
    "non-trivial = offset > 0; distinct = distinct (reference point, offset) tuples"
)
ASSUMPTIONS = [
    "great-circle reference uses the spherical Earth of radius 6 371 000 m (the value the code documents)",
    "reference points next to the antimeridian are included: the inverse may return longitudes beyond +-180 (unwrapped), which the "
    "forward map and the great-circle reference accept",
]
MIN_NONTRIVIAL = {"quick": 2000, "thorough": 64000}
TIMEOUT = {"quick": 600, "thorough": 7000}
R = 6_371_000.0
NPER = 400


def cases(tier, seed):
    n = 40 if tier == "quick" else 7680
    return [{"seed": seed, "idx": i} for i in range(n)]


def haversine(lat1, lon1, lat2, lon2):
    p1, p2 = math.radians(lat1), math.radians(lat2)
    dl = math.radians(lon2 - lon1)
    a = math.sin((p2 - p1) / 2) ** 2 + math.cos(p1) * math.cos(p2) * math.sin(dl / 2) ** 2
    return 2 * R * math.asin(min(1.0, math.sqrt(a)))


def bearing(lat1, lon1, lat2, lon2):
    p1, p2 = math.radians(lat1), math.radians(lat2)
    dl = math.radians(lon2 - lon1)
    y = math.sin(dl) * math.cos(p2)
    x = math.cos(p1) * math.sin(p2) - math.sin(p1) * math.cos(p2) * math.cos(dl)
    return math.degrees(math.atan2(y, x)) % 360.0


def angdiff(a, b):
    return abs((a - b + 180.0) % 360.0 - 180.0)


def run_case(case):
    import numpy as np
    from bldfm.config_parser import latlon_to_xy, parse_config_dict
    from bldfm.plotting._geo import xy_to_latlon as _x2l
    from vlib import purity

    xy_to_latlon = purity.guarded(_x2l, "xy_to_latlon")
    from vlib import gen

    rng = gen.rng_for(case["seed"], "C17", case["idx"])
    viol, sigs, buckets = [], set(), {}
    resid = {"roundtrip_deg": 0.0, "roundtrip_m": 0.0, "distance_rel": 0.0, "bearing_deg": 0.0, "origin_m": 0.0}
    counters = {"points": 0, "array_calls": 0, "config_towers": 0}
    sample = None
    pts = []
    for j in range(NPER):
        strat = j % 4
        if strat == 0:  # corners of the quantifier
            lat0 = float(rng.choice([-60.0, 60.0, 0.0, 59.999, -59.999]))
            lon0 = float(rng.choice([-179.99, 179.99, 180.0, -180.0, 179.9, 0.0, 90.0, -90.0]))
            brg = float(rng.choice([0, 90, 180, 270, 45, 135, 225, 315]))
            dist = float(rng.choice([0.0, 0.5, 5000.0, 4999.0]))
        elif j % 8 == 5:  # reference points a few metres to a kilometre beside the Greenwich meridian / the antimeridian, offsets crossing it
            lat0 = float(rng.uniform(-60, 60))
            eps_ = float(10 ** rng.uniform(-6, -2))
            lon0 = float(rng.choice([eps_, -eps_, 180.0 - eps_, -180.0 + eps_]))
            brg = float(rng.choice([90.0, 270.0, rng.uniform(0, 360)]))
            dist = float(10 ** rng.uniform(1.0, math.log10(5000.0)))
        elif j % 8 == 6:  # offsets of centimetres to tens of metres (a tower next to the reference point), any longitude
            lat0 = float(rng.uniform(-60, 60))
            lon0 = float(rng.choice([rng.uniform(-180, 180), rng.choice([-1, 1]) * rng.uniform(120, 179.9)]))
            brg = float(rng.uniform(0, 360))
            dist = float(10 ** rng.uniform(-2, 2))
        else:
            lat0 = float(rng.uniform(-60, 60))
            lon0 = float(rng.uniform(-180, 180))
            brg = float(rng.uniform(0, 360))
            dist = float(10 ** rng.uniform(-0.3, math.log10(5000.0)))
        # keep the point's latitude inside the quantifier and away from the antimeridian
        x, y = dist * math.sin(math.radians(brg)), dist * math.cos(math.radians(brg))
        pts.append((lat0, lon0, x, y, dist, brg))

    for lat0, lon0, x, y, dist, brg in pts:
        counters["points"] += 1
        # xy -> latlon (scalar) -> xy
        la, lo = xy_to_latlon(x, y, lat0, lon0)
        la, lo = float(la), float(lo)
        x2, y2 = latlon_to_xy(la, lo, lat0, lon0)
        e = math.hypot(x2 - x, y2 - y)
        resid["roundtrip_m"] = max(resid["roundtrip_m"], e)
        if not e <= 1e-6:
            viol.append({"what": "xy_latlon_xy_roundtrip", "ref": (lat0, lon0), "xy": (x, y), "back": (x2, y2), "err_m": e})
        # latlon -> xy -> latlon
        la2, lo2 = xy_to_latlon(x2, y2, lat0, lon0)
        e = max(abs(float(la2) - la), abs(float(lo2) - lo))
        resid["roundtrip_deg"] = max(resid["roundtrip_deg"], e)
        if not e <= 1e-9:
            viol.append({"what": "latlon_xy_latlon_roundtrip", "ref": (lat0, lon0), "latlon": (la, lo), "back": (float(la2), float(lo2)), "err_deg": e})
        # origin
        ox, oy = latlon_to_xy(lat0, lon0, lat0, lon0)
        ola, olo = xy_to_latlon(0.0, 0.0, lat0, lon0)
        resid["origin_m"] = max(resid["origin_m"], abs(ox), abs(oy))
        if ox != 0.0 or oy != 0.0 or float(ola) != lat0 or float(olo) != lon0:
            viol.append({"what": "origin_not_zero", "ref": (lat0, lon0), "xy": (ox, oy), "latlon": (float(ola), float(olo))})
        # orientation: a point further east has larger x, further north larger y
        xe, ye = latlon_to_xy(lat0, lon0 + 1e-4, lat0, lon0)
        xn, yn = latlon_to_xy(lat0 + 1e-4, lon0, lat0, lon0)
        if not (xe > 0 and abs(ye) < 1e-9 and yn > 0 and abs(xn) < 1e-9):
            viol.append({"what": "orientation", "ref": (lat0, lon0), "east": (xe, ye), "north": (xn, yn)})
        lae, loe = xy_to_latlon(1.0, 0.0, lat0, lon0)
        lan, lon_ = xy_to_latlon(0.0, 1.0, lat0, lon0)
        if not (float(loe) > lon0 and float(lae) == lat0 and float(lan) > lat0 and float(lon_) == lon0):
            viol.append({"what": "orientation_inverse", "ref": (lat0, lon0)})
        if dist > 0:
            # great-circle agreement of the forward map at the generated lat/lon
            d_gc = haversine(lat0, lon0, la, lo)
            b_gc = bearing(lat0, lon0, la, lo)
            d_loc = math.hypot(x2, y2)
            b_loc = math.degrees(math.atan2(x2, y2)) % 360.0
            if d_gc == 0.0:
                viol.append({"what": "distance", "ref": (lat0, lon0), "latlon": (la, lo), "local_m": d_loc, "great_circle_m": 0.0,
                             "note": "non-zero offset mapped onto the reference point"})
                continue
            rel = abs(d_loc - d_gc) / d_gc
            resid["distance_rel"] = max(resid["distance_rel"], rel)
            if not rel <= 1e-3:
                viol.append({"what": "distance", "ref": (lat0, lon0), "latlon": (la, lo), "local_m": d_loc, "great_circle_m": d_gc, "rel": rel})
            if dist >= 1.0:  # bearing of a sub-metre offset is dominated by rounding of the degrees
                db = angdiff(b_loc, b_gc)
                resid["bearing_deg"] = max(resid["bearing_deg"], db)
                if not db <= 0.1:
                    viol.append({"what": "bearing", "ref": (lat0, lon0), "latlon": (la, lo), "local_deg": b_loc, "great_circle_deg": b_gc, "diff": db})
            cell = (int((lat0 + 60) // 20), int((lon0 + 180) // 60), int(math.log10(max(dist, 0.5)) + 1), int(brg // 45) % 8)
            sigs.add(f"{lat0:.6f},{lon0:.6f},{x:.3f},{y:.3f}")
            if abs(lo) > 180.0 or (abs(lon0) > 179.9 and (lo - lon0) * lon0 > 0):
                buckets["crosses_antimeridian"] = buckets.get("crosses_antimeridian", 0) + 1
            b = f"lat{cell[0]}_dist1e{cell[2]}"
            buckets[b] = buckets.get(b, 0) + 1
        if sample is None and dist > 100:
            sample = {"ref": (lat0, lon0), "offset_m": (x, y), "latlon": (la, lo), "back_m": (x2, y2)}

    # integer-typed degrees (YAML 'ref_lat: 50') give the float-typed result
    for _ in range(20):
        la_i, lo_i, rla, rlo = int(rng.integers(-60, 61)), int(rng.integers(-179, 180)), int(rng.integers(-60, 61)), int(rng.integers(-179, 180))
        if abs(la_i - rla) > 1 or abs(lo_i - rlo) > 1:
            la_i, lo_i = rla, rlo + int(rng.integers(-1, 2))
        for T in (int, np.int64, np.int32):
            xi, yi = latlon_to_xy(T(la_i), T(lo_i), T(rla), T(rlo))
            xf, yf = latlon_to_xy(float(la_i), float(lo_i), float(rla), float(rlo))
            bi = xy_to_latlon(T(1000), T(-2000), T(rla), T(rlo))
            bf = xy_to_latlon(1000.0, -2000.0, float(rla), float(rlo))
            counters["points"] += 1
            if (float(xi), float(yi)) != (xf, yf) or (float(bi[0]), float(bi[1])) != (float(bf[0]), float(bf[1])):
                viol.append({"what": "integer_typed_degrees_change_the_result", "type": T.__name__, "args": (la_i, lo_i, rla, rlo),
                             "got": (float(xi), float(yi)), "expected": (xf, yf)})
    # single-precision inputs (station tables stored as float32): a float32 number is exactly a double, so the result must be the one the
    # double-typed call of the same values gives (forward map to 1e-6 m, inverse to 1e-9 degree is asserted on the double result only)
    for _ in range(20):
        rla, rlo = np.float32(rng.uniform(-60, 60)), np.float32(rng.uniform(-179, 179))
        la_s, lo_s = np.float32(float(rla) + rng.uniform(-0.003, 0.003)), np.float32(float(rlo) + rng.uniform(-0.003, 0.003))
        xs, ys = latlon_to_xy(la_s, lo_s, rla, rlo)
        xd, yd = latlon_to_xy(float(la_s), float(lo_s), float(rla), float(rlo))
        counters["points"] += 1
        if not (abs(float(xs) - xd) <= 1e-6 and abs(float(ys) - yd) <= 1e-6):
            viol.append({"what": "single_precision_typed_degrees_change_the_result", "args": (float(la_s), float(lo_s), float(rla), float(rlo)),
                         "got": (float(xs), float(ys)), "expected": (xd, yd)})
    # arrays through the inverse (its documented vectorised form) equal the scalar calls
    arr = np.array([(p[2], p[3]) for p in pts[:50]])
    lat0, lon0 = pts[1][0], pts[1][1]
    LA, LO = xy_to_latlon(arr[:, 0], arr[:, 1], lat0, lon0)
    counters["array_calls"] += 1
    for k in range(len(arr)):
        a, b = xy_to_latlon(float(arr[k, 0]), float(arr[k, 1]), lat0, lon0)
        if float(a) != float(LA[k]) or float(b) != float(LO[k]):
            viol.append({"what": "array_vs_scalar", "k": k, "ref": (lat0, lon0)})
    X2 = xy_to_latlon(arr[:, 0].reshape(5, 10), arr[:, 1].reshape(5, 10), lat0, lon0)
    if X2[0].shape != (5, 10) or not np.array_equal(X2[0].ravel(), LA):
        viol.append({"what": "array2d_vs_1d", "ref": (lat0, lon0)})

    # 2-D offset arrays that are not a rectilinear grid: a (distance x bearing) table (first distance 0, first bearing north), and a
    # single row / single column - every element must be what the scalar call gives for that element
    dists = np.concatenate([[0.0], np.sort(rng.uniform(10.0, 5000.0, 5))])
    brgs = np.concatenate([[0.0], np.sort(rng.uniform(1.0, 359.0, 7))])
    PX = dists[:, None] * np.sin(np.radians(brgs))[None, :]
    PY = dists[:, None] * np.cos(np.radians(brgs))[None, :]
    # a closed outline (a polygon whose first vertex is repeated at the end, a ring of bearings at one distance) handed over as a
    # column or as a row of a 2-D array, and a point cloud in which a site occurs twice
    ring_b = np.radians(np.concatenate([np.sort(rng.uniform(0.0, 360.0, 9)), [0.0]]))
    ring_b[-1] = ring_b[0]
    ring_r = rng.uniform(200.0, 3000.0, 10)
    ring_r[-1] = ring_r[0]
    RX, RY = ring_r * np.sin(ring_b), ring_r * np.cos(ring_b)
    CX, CY = rng.uniform(-4000, 4000, (4, 5)), rng.uniform(-4000, 4000, (4, 5))
    CX[3, :], CY[3, :] = CX[0, :], CY[0, :]
    CX[:, 4], CY[:, 4] = CX[:, 0], CY[:, 0]
    for XA, YA, nm_ in ((PX, PY, "polar table"), (PX[3:4, :], PY[3:4, :], "one row"), (PX[:, 2:3], PY[:, 2:3], "one column"),
                        (RX[:, None], RY[:, None], "closed outline as a column"), (RX[None, :], RY[None, :], "closed outline as a row"),
                        (CX, CY, "point cloud with repeated first row and column")):
        LAa, LOa = xy_to_latlon(XA, YA, lat0, lon0)
        counters["array_calls"] += 1
        LAa, LOa = np.asarray(LAa), np.asarray(LOa)
        ok_ = LAa.shape == XA.shape and LOa.shape == XA.shape
        if ok_:
            for i_ in range(XA.shape[0]):
                for j_ in range(XA.shape[1]):
                    a, b = xy_to_latlon(float(XA[i_, j_]), float(YA[i_, j_]), lat0, lon0)
                    if float(a) != float(LAa[i_, j_]) or float(b) != float(LOa[i_, j_]):
                        ok_ = False
        if not ok_:
            viol.append({"what": "array_vs_scalar", "ref": (lat0, lon0), "form": f"2-D offsets that are not a meshgrid ({nm_})"})
    # towers in a parsed configuration carry the same local coordinates
    tw = []
    for k, (la0, lo0, x, y, dist, brg) in enumerate(pts[:6]):
        la, lo = xy_to_latlon(x, y, pts[0][0], pts[0][1])
        tw.append({"name": f"T{k}", "lat": float(la), "lon": float(lo), "z_m": 3.0})
    for k, (x, y) in enumerate([(12.0, 25.0), (0.3, -0.8), (-40.0, 3.0)]):  # towers a few metres from the reference point
        la, lo = xy_to_latlon(x, y, pts[0][0], pts[0][1])
        tw.append({"name": f"N{k}", "lat": float(la), "lon": float(lo), "z_m": 2.0, "_xy": (x, y)})
    # (the other sections of the configuration - solver, parallel, output - are present in half of the cases, with every switch drawn:
    # where a tower lies does not depend on how the run is carried out)
    other = {}
    if rng.random() < 0.5:
        other = {"solver": {"closure": str(rng.choice(["MOST", "MOSTM", "CONSTANT"])), "footprint": bool(rng.random() < 0.5), "precision": str(rng.choice(["single", "double"]))},
                 "parallel": {"use_cache": bool(rng.random() < 0.5), "max_workers": int(rng.integers(1, 5))},
                 "output": {"format": "netcdf", "directory": "./out"}}
        buckets["config_with_run_options"] = 1
    # what goes wrong in one configuration stays there: a configuration with impossible coordinates (latitude and longitude swapped for a
    # site at 151 E) is built first in half of the cases - accepted or rejected, the good one that follows is geolocated as always
    if rng.random() < 0.5:
        try:
            parse_config_dict({"domain": {"nx": 8, "ny": 8, "xmax": 80.0, "ymax": 80.0, "nz": 4, "ref_lat": -33.9, "ref_lon": 151.2},
                               "towers": [{"name": "swapped", "lat": 151.213, "lon": -33.87, "z_m": 3.0}, {"name": "ok", "lat": -33.9, "lon": 151.21, "z_m": 3.0}],
                               "met": {"ustar": 0.3}})
            buckets["after_an_implausible_configuration:accepted"] = 1
        except Exception:
            buckets["after_an_implausible_configuration:rejected"] = 1
    try:
        parse_config_dict({"domain": {"nx": 8, "ny": 8, "xmax": 80.0, "ymax": 80.0, "nz": 4, "ref_lat": pts[0][0], "ref_lon": pts[0][1]},
                           "towers": [{k_: v_ for k_, v_ in t_.items() if not k_.startswith("_")} for t_ in tw], "met": {"ustar": 0.3}})
    except Exception as ex_:  # noqa
        viol.append({"what": "valid_configuration_rejected", "exc": repr(ex_)[:300], "reference": (pts[0][0], pts[0][1])})
        return {"evals": counters["points"], "nontrivial": True, "sig": [f"cfg|{case['idx']}"], "buckets": buckets, "resid": resid, "counters": counters, "violations": viol}
    cfg = parse_config_dict({
        "domain": {"nx": 8, "ny": 8, "xmax": 80.0, "ymax": 80.0, "nz": 4, "ref_lat": pts[0][0], "ref_lon": pts[0][1]},
        "towers": [{k_: v_ for k_, v_ in t_.items() if not k_.startswith("_")} for t_ in tw], "met": {"ustar": 0.3}, **other,
    })
    # the configuration assembled in Python from the dataclasses: the caller keeps its own references to the towers and finds them located
    from bldfm.config_parser import BLDFMConfig as _BC, DomainConfig as _DC, TowerConfig as _TC, MetConfig as _MC

    mine = [_TC(name=t_["name"], lat=t_["lat"], lon=t_["lon"], z_m=t_["z_m"]) for t_ in tw[:4]]
    _BC(domain=_DC(nx=8, ny=8, xmax=80.0, ymax=80.0, nz=4, ref_lat=pts[0][0], ref_lon=pts[0][1]), towers=mine, met=_MC(ustar=0.3))
    for t_, spec in zip(mine, tw[:4]):
        counters["config_towers"] += 1
        ex, ey = latlon_to_xy(spec["lat"], spec["lon"], pts[0][0], pts[0][1])
        if (t_.x, t_.y) != (ex, ey):
            viol.append({"what": "config_tower_xy", "form": "the caller's own tower object after the configuration was assembled from dataclasses", "tower": spec,
                         "got": (t_.x, t_.y), "expected": (ex, ey)})
    for t, spec in zip(cfg.towers, tw):
        counters["config_towers"] += 1
        ex, ey = latlon_to_xy(spec["lat"], spec["lon"], pts[0][0], pts[0][1])
        if (t.x, t.y) != (ex, ey) or t.name != spec["name"]:
            viol.append({"what": "config_tower_xy", "tower": spec, "got": (t.x, t.y), "expected": (ex, ey)})
        if "_xy" in spec and math.hypot(t.x - spec["_xy"][0], t.y - spec["_xy"][1]) > 1e-6:
            viol.append({"what": "config_tower_xy", "tower": spec, "got": (t.x, t.y), "expected": spec["_xy"], "ref": (pts[0][0], pts[0][1]),
                         "note": "tower a few metres from the reference point"})

    # the same tower objects under a different reference origin (dataclasses.replace re-runs the conversion)
    import dataclasses

    for k in range(3):
        nlat, nlon = float(rng.uniform(-60, 60)), float(rng.uniform(-179, 179))
        cfg2 = dataclasses.replace(cfg, domain=dataclasses.replace(cfg.domain, ref_lat=nlat, ref_lon=nlon))
        for t, spec in zip(cfg2.towers, tw):
            counters["config_towers"] += 1
            ex, ey = latlon_to_xy(spec["lat"], spec["lon"], nlat, nlon)
            if (t.x, t.y) != (ex, ey):
                viol.append({"what": "config_tower_xy", "tower": spec, "got": (t.x, t.y), "expected": (ex, ey), "origin": (nlat, nlon),
                             "history": "configuration re-built from the same tower objects with another reference origin"})
        cfg = cfg2
    # a tower exactly on the origin maps to (0, 0) whatever it was before
    t0 = cfg.towers[0]
    cfg3 = dataclasses.replace(cfg, domain=dataclasses.replace(cfg.domain, ref_lat=t0.lat, ref_lon=t0.lon))
    if (cfg3.towers[0].x, cfg3.towers[0].y) != (0.0, 0.0):
        viol.append({"what": "origin_not_zero", "ref": (t0.lat, t0.lon), "xy": (cfg3.towers[0].x, cfg3.towers[0].y),
                     "history": "tower on the new origin of a re-built configuration"})

    # reference origins as a configuration file may spell them: whole degrees written without a decimal point (int), the equator or
    # the prime meridian (0 / 0.0, falsy values), numpy scalars from a station table; a YAML text path too
    from bldfm.config_parser import parse_config_dict as _pcd

    for k in range(6):
        rla_i, rlo_i = int(rng.integers(-60, 61)), int(rng.integers(-179, 180))
        if k == 1:
            rla_i = 0
        if k == 2:
            rlo_i = 0
        if k == 3:
            rla_i, rlo_i = 0, 0
        spell = [(rla_i, rlo_i, "int"), (float(rla_i), float(rlo_i), "float"), (np.float64(rla_i), np.int64(rlo_i), "numpy"),
                 (rla_i, float(rlo_i) + 0.25, "int latitude only")][k % 4 if k < 4 else int(rng.integers(0, 4))]
        tws = []
        for j in range(3):
            x, y = float(rng.uniform(-3000, 3000)), float(rng.uniform(-3000, 3000))
            la, lo = xy_to_latlon(x, y, float(spell[0]), float(spell[1]))
            tws.append({"name": f"I{j}", "lat": float(la), "lon": float(lo), "z_m": 2.5, "_xy": (x, y)})
        cfgi = _pcd({"domain": {"nx": 8, "ny": 8, "xmax": 80.0, "ymax": 80.0, "nz": 4, "ref_lat": spell[0], "ref_lon": spell[1]},
                     "towers": [{k_: v_ for k_, v_ in t_.items() if not k_.startswith("_")} for t_ in tws], "met": {"ustar": 0.3}})
        buckets[f"origin_spelled:{spell[2]}"] = buckets.get(f"origin_spelled:{spell[2]}", 0) + 1
        for t, spec in zip(cfgi.towers, tws):
            counters["config_towers"] += 1
            ex, ey = latlon_to_xy(spec["lat"], spec["lon"], float(spell[0]), float(spell[1]))
            if not (abs(t.x - ex) <= 1e-9 and abs(t.y - ey) <= 1e-9) or math.hypot(t.x - spec["_xy"][0], t.y - spec["_xy"][1]) > 1e-5:
                viol.append({"what": "config_tower_xy", "tower": spec, "got": (t.x, t.y), "expected": (ex, ey),
                             "ref": (repr(spell[0]), repr(spell[1])), "note": f"reference origin spelled as {spell[2]}"})

    return {"evals": counters["points"], "nontrivial": bool(sigs), "sig": sorted(sigs), "buckets": buckets,
            "resid": resid, "counters": counters, "violations": viol, "sample": sample}
