"""C16 - met time series: one step per list entry, scalars broadcast, mismatches rejected.

Reference-model monitor: a ten-line executable model of the documented MetConfig
semantics is evaluated next to the real code on the *complete* pattern space the
property quantifies over; the drivers' iteration counts are observed through
recording stubs on the real drivers.
"""

import itertools

ID = "C16"
LEVEL = "exploration"
RULE = (
    "exhaustive enumeration: 2^4 list/scalar patterns of (ustar, mol, wind_speed, wind_dir) x lengths 1..4 x "
    "timestamps {absent, right length, one too long, one too short} x presence {ustar, z0, both, neither} x "
    "{consistent, one list-valued field one entry longer/shorter for every list field}; a configuration is "
    "non-trivial when it has >=1 list-valued field or timestamps or is rejected; distinct = distinct configuration tuples"
)
ASSUMPTIONS = [
    "list-valued means Python list (what YAML produces); tuples/ndarrays are not enumerated",
    "any exception raised while building the configuration counts as a rejection; its type is recorded",
]
MIN_NONTRIVIAL = {"quick": 500, "thorough": 2000}
TIMEOUT = {"quick": 600, "thorough": 7000}
FIELDS = ("ustar", "mol", "wind_speed", "wind_dir")
BASE = {"ustar": 0.3, "mol": -50.0, "wind_speed": 3.0, "wind_dir": 200.0}


def cases(tier, seed):
    out = []
    for bits in range(16):
        for presence in ("ustar", "z0", "both", "neither"):
            out.append({"bits": bits, "presence": presence, "seed": seed, "tier": tier})
    return out


# ------------------------------------------------------------------ reference model


def model(met):
    """('reject', why) | ('ok', n, steps)"""
    if met.get("ustar") is None and met.get("z0") is None:
        return ("reject", "neither ustar nor z0")
    lens = {f: len(met[f]) for f in FIELDS if isinstance(met.get(f), list)}
    if len(set(lens.values())) > 1:
        return ("reject", "list lengths differ")
    n = next(iter(lens.values())) if lens else 1
    ts = met.get("timestamps")
    if ts is not None and len(ts) != n:
        return ("reject", "timestamps length")
    steps = []
    for i in range(n):
        st = {f: (met[f][i] if isinstance(met.get(f), list) else met.get(f)) for f in FIELDS}
        if met.get("z0") is not None:
            st["z0"] = met["z0"]
        st["timestamp"] = ts[i] if ts is not None else i
        steps.append(st)
    return ("ok", n, steps)


def values(field, n, salt):
    # distinct, self-identifying entries
    if field == "wind_dir" and salt % 2 == 1:
        # directions outside [0, 360): unwrapped series, -180..180 conventions (a step hands out the entry as it is)
        return [[370.0, -90.0, 585.0, 359.5, -0.5][i % 5] + 0.001 * salt + 0.0001 * i for i in range(n)]
    if field == "wind_speed" and salt % 2 == 0:
        # a series with light-wind and calm records among ordinary ones (every record is its own step, whatever its speed)
        return [[3.2, 0.4, 0.45, 0.0, 2.1][i % 5] + 0.001 * salt + 0.0001 * i for i in range(n)]
    return [BASE[field] * (1 + 0.01 * (i + 1)) + 0.001 * salt for i in range(n)]


_KIND = [0]


def configs(bits, presence):
    """Yield (label, met dict)."""
    _KIND[0] = 0
    islist = {f: bool(bits >> k & 1) for k, f in enumerate(FIELDS)}
    for n in (1, 2, 3, 4):
        variants = [("consistent", {})]
        lf = [f for f in FIELDS if islist[f] and not (f == "ustar" and presence in ("z0", "neither"))]
        for f in lf:
            if len(lf) >= 2:
                variants.append((f"long:{f}", {f: n + 1}))
                if n > 1:
                    variants.append((f"short:{f}", {f: n - 1}))
        for vlabel, over in variants:
            met = {}
            for f in FIELDS:
                if f == "ustar" and presence in ("z0", "neither"):
                    continue
                met[f] = values(f, over.get(f, n), n) if islist[f] else BASE[f]
            if presence in ("z0", "both"):
                met["z0"] = 0.07
            nn = model(dict(met, ustar=met.get("ustar")))
            n_eff = nn[1] if nn[0] == "ok" else n
            for tlabel, tlen in (("none", None), ("right", n_eff), ("long", n_eff + 1), ("short", n_eff - 1)):
                m = dict(met)
                if tlen is not None:
                    if tlen < 0:
                        continue
                    m["timestamps"] = [f"2024-01-01T{h:02d}:00" for h in range(tlen)]
                    _KIND[0] += 1
                    kind_ = (_KIND[0] + bits) % 7   # labels are labels: any strings / numbers, in any order, repeated or not (every kind for every length)
                    if kind_ == 1:
                        m["timestamps"] = [f"{9 + h}:30" for h in range(tlen)]              # "9:30", "10:30": not in string order
                    elif kind_ == 2:
                        m["timestamps"] = [["23:30", "00:00", "00:30", "01:00", "01:30"][h % 5] for h in range(tlen)]   # across midnight
                    elif kind_ == 3:
                        m["timestamps"] = [f"day{h // 2}" for h in range(tlen)]             # repeated labels
                    elif kind_ == 4:
                        m["timestamps"] = [f"DOY {100 - h}" for h in range(tlen)]           # descending
                    elif kind_ == 5:
                        m["timestamps"] = [h + 1 for h in range(tlen)]                      # record numbers counted from one (integers that are also positions)
                    elif kind_ == 6:
                        m["timestamps"] = [[22, 23, 0, 1, 2][h % 5] for h in range(tlen)]   # hours running over midnight, as integers
                yield (f"n={n},{vlabel},ts={tlabel}", m)


def run_case(case):
    import os
    import tempfile
    import types

    import yaml
    import bldfm.interface as iface
    import bldfm.cli as cli
    from bldfm.config_parser import MetConfig, parse_config_dict, load_config

    bits, presence, tier = case["bits"], case["presence"], case["tier"]
    viol, sigs, buckets, counters = [], [], {}, {"model_evals": 0, "driver_runs": 0, "cli_runs": 0, "yaml_loads": 0}
    samples = []

    def bump(b):
        buckets[b] = buckets.get(b, 0) + 1

    # recording stub: the drivers' iteration counts, observed on the real drivers
    calls = []
    real_single_iface = iface.run_bldfm_single
    real_single_cli = cli.run_bldfm_single

    def stub(config, tower, met_index=0, *args, **kwargs):  # signature-agnostic
        st = config.met.get_step(met_index)
        calls.append((tower.name, met_index, st))
        return {"grid": None, "conc": None, "flx": None, "tower_name": tower.name, "tower_xy": (0, 0),
                "timestamp": st["timestamp"], "params": st}

    k = 0
    for label, met in configs(bits, presence):
        k += 1
        counters["model_evals"] += 1
        exp = model(met)
        raw = {
            "domain": {"nx": 8, "ny": 8, "xmax": 80.0, "ymax": 80.0, "nz": 4, "ref_lat": 50.0, "ref_lon": 11.0},
            "towers": [{"name": "A", "lat": 50.0001, "lon": 11.0001, "z_m": 3.0}],
            "met": met,
        }
        if k % 2:  # every other configuration has no geographic reference origin (the forcing must be validated all the same)
            del raw["domain"]["ref_lat"], raw["domain"]["ref_lon"]
        sig = f"{bits}|{presence}|{label}"
        nontrivial = any(isinstance(v, list) for v in met.values()) or exp[0] == "reject"
        # --- path 1: MetConfig(...).validate()
        outcomes = {}
        try:
            mc = MetConfig(**met)
            mc.validate()
            outcomes["validate"] = ("ok", mc)
        except Exception as e:  # noqa
            outcomes["validate"] = ("reject", type(e).__name__)
        # --- path 2: parse_config_dict (where the configuration is built)
        try:
            cfg = parse_config_dict(raw)
            outcomes["parse"] = ("ok", cfg.met, cfg)
        except Exception as e:  # noqa
            outcomes["parse"] = ("reject", type(e).__name__)
        for path, oc in outcomes.items():
            if exp[0] == "reject":
                if oc[0] == "ok":
                    viol.append({"what": "accepted_inconsistent", "path": path, "met": met, "why": exp[1], "label": label,
                                 "n_timesteps": oc[1].n_timesteps})
                else:
                    bump(f"rejected:{exp[1]}:{oc[1]}")
            else:
                if oc[0] == "reject":
                    viol.append({"what": "rejected_valid", "path": path, "met": met, "exc": oc[1], "label": label})
                    continue
                mc = oc[1]
                if mc.n_timesteps != exp[1]:
                    viol.append({"what": "n_timesteps", "path": path, "met": met, "got": mc.n_timesteps, "expected": exp[1], "label": label})
                for i in range(exp[1]):
                    try:
                        got = mc.get_step(i)
                    except Exception as e:  # noqa
                        viol.append({"what": "get_step_raises", "path": path, "met": met, "i": i, "exc": repr(e), "label": label})
                        continue
                    if got != exp[2][i]:
                        viol.append({"what": "get_step", "path": path, "met": met, "i": i, "got": got, "expected": exp[2][i], "label": label})
        if exp[0] == "ok":
            bump(f"accepted:n={exp[1]}")
        if nontrivial:
            sigs.append(sig)
        # --- right after it, in the same process: a sparse forcing that leaves fields to their documented defaults (Obukhov length 1e9,
        # wind speed 5, direction 270) - what the previous configuration said about those fields is none of its business
        if k % 4 == 1:
            for sparse in ({"ustar": 0.3}, {"z0": 0.05}, {"ustar": [0.31, 0.52]}, {"ustar": 0.4, "wind_dir": [10.0, 20.0, 30.0]}):
                full = dict({"mol": 1e9, "wind_speed": 5.0, "wind_dir": 270.0}, **sparse)
                exp_s = model(dict(full, ustar=full.get("ustar")))
                counters["sparse_configurations_after_a_full_one"] = counters.get("sparse_configurations_after_a_full_one", 0) + 1
                try:
                    ms = parse_config_dict(dict(raw, met=dict(sparse))).met
                    got_s = ("ok", ms.n_timesteps, [ms.get_step(i_) for i_ in range(ms.n_timesteps)])
                except Exception as e:  # noqa
                    got_s = ("reject", repr(e)[:120])
                if got_s[0] != "ok" or got_s[1] != exp_s[1] or got_s[2] != exp_s[2]:
                    viol.append({"what": "defaults_of_a_sparse_forcing_depend_on_the_configuration_parsed_before", "met": sparse, "previous": met,
                                 "got": got_s[:3], "expected": exp_s[1:3]})
        # --- path 3: drivers' iteration count (solver stubbed by the recorder)
        if exp[0] == "ok" and outcomes["parse"][0] == "ok" and (tier == "thorough" or k % 3 == 0):
            cfg = outcomes["parse"][2]
            calls.clear()
            iface.run_bldfm_single = stub
            try:
                res = iface.run_bldfm_timeseries(cfg, cfg.towers[0])
            finally:
                iface.run_bldfm_single = real_single_iface
            counters["driver_runs"] += 1
            idx = [c[1] for c in calls]
            # judged on what comes back (one entry per step, carrying that step's entries, scalars and timestamp); which index the
            # driver hands to the single run is its own business and only recorded
            if idx != list(range(exp[1])):
                counters["driver_runs_with_other_index_sequence"] = counters.get("driver_runs_with_other_index_sequence", 0) + 1
            if len(res) != exp[1] or [r_.get("params") for r_ in res] != exp[2] or [r_.get("timestamp") for r_ in res] != [st_["timestamp"] for st_ in exp[2]]:
                viol.append({"what": "driver_iterations", "driver": "run_bldfm_timeseries", "met": met, "indices": idx,
                             "expected": exp[1], "label": label})
            # the same series with entries that recur (wind direction coming back to an earlier value, a constant list): every step is
            # still its own step - judged on the returned list (i-th entries, i-th timestamp or i), not on how often the solver ran
            if exp[1] >= 2:
                met_r = {f: (([v[0], v[1 % len(v)]] * len(v))[: len(v)] if k % 2 else [v[0]] * len(v)) if isinstance(v, list) and f != "timestamps" else v
                         for f, v in met.items()}
                exp_r = model(met_r)
                try:
                    cfg_r = parse_config_dict(dict(raw, met=met_r))
                except Exception as e:  # noqa
                    cfg_r = None
                    if exp_r[0] == "ok":
                        viol.append({"what": "rejected_consistent", "path": "parse", "met": met_r, "label": label + ",recurring entries", "exc": repr(e)[:120]})
                if cfg_r is not None and exp_r[0] == "ok":
                    iface.run_bldfm_single = stub
                    try:
                        res_r = iface.run_bldfm_timeseries(cfg_r, cfg_r.towers[0])
                    finally:
                        iface.run_bldfm_single = real_single_iface
                    counters["driver_runs_recurring_entries"] = counters.get("driver_runs_recurring_entries", 0) + 1
                    got_r = [(r.get("timestamp"), r.get("params")) for r in res_r]
                    want_r = [(st["timestamp"], st) for st in exp_r[2]]
                    if got_r != want_r:
                        viol.append({"what": "driver_steps", "driver": "run_bldfm_timeseries", "met": met_r, "label": label + ",recurring entries",
                                     "got_timestamps": [g[0] for g in got_r], "expected_timestamps": [w[0] for w in want_r]})
        # --- path 4: YAML + CLI
        if tier == "thorough" or k % 7 == 0:
            with tempfile.TemporaryDirectory(dir=".") as d:
                p = os.path.join(d, "c.yaml")
                with open(p, "w") as f:
                    yaml.safe_dump(raw, f)
                counters["yaml_loads"] += 1
                try:
                    cfg2 = load_config(p)
                    y_ok = True
                except Exception as e:  # noqa
                    y_ok = False
                if y_ok != (outcomes["parse"][0] == "ok"):
                    viol.append({"what": "yaml_vs_dict_acceptance", "met": met, "label": label})
                elif y_ok and cfg2 != outcomes["parse"][2]:
                    viol.append({"what": "yaml_vs_dict_config", "met": met, "label": label})
                if y_ok and exp[0] == "ok":
                    calls.clear()
                    cli.run_bldfm_single = stub
                    try:
                        cli.cmd_run(types.SimpleNamespace(config=p, dry_run=False, plot=False))
                    finally:
                        cli.run_bldfm_single = real_single_cli
                    counters["cli_runs"] += 1
                    if [c[2] for c in calls] != exp[2]:  # the steps that were run, by content (the CLI returns nothing to look at)
                        viol.append({"what": "driver_iterations", "driver": "cli.cmd_run", "met": met,
                                     "indices": [c[1] for c in calls], "expected": exp[1], "label": label})
                    # the same file with a second and a third tower: every tower runs every step (the command line has no other driver)
                    raw3 = dict(raw, towers=raw["towers"] + [{"name": "B", "lat": 50.0002, "lon": 11.0003, "z_m": 4.0}, {"name": "C", "lat": 50.0003, "lon": 10.9998, "z_m": 2.5}])
                    p3 = os.path.join(d, "c3.yaml")
                    with open(p3, "w") as f:
                        yaml.safe_dump(raw3, f)
                    calls.clear()
                    cli.run_bldfm_single = stub
                    try:
                        cli.cmd_run(types.SimpleNamespace(config=p3, dry_run=False, plot=False))
                    finally:
                        cli.run_bldfm_single = real_single_cli
                    counters["cli_runs_with_three_towers"] = counters.get("cli_runs_with_three_towers", 0) + 1
                    want3 = [(nm_, st_) for nm_ in ("A", "B", "C") for st_ in exp[2]]
                    if [(c[0], c[2]) for c in calls] != want3:
                        viol.append({"what": "driver_iterations", "driver": "cli.cmd_run", "towers": 3, "met": met, "runs": [(c[0], c[1]) for c in calls],
                                     "expected_steps_per_tower": exp[1], "label": label})
        if len(samples) < 2 and nontrivial:
            samples.append({"label": label, "met": met, "model": exp[0] if exp[0] == "reject" else {"n": exp[1], "step0": exp[2][0]}})
    return {"evals": k, "nontrivial": bool(sigs), "sig": sigs, "buckets": buckets, "counters": counters,
            "violations": viol, "sample": samples}


def finalize(results, tier):
    n = sum(r.get("evals", 0) for r in results)
    return {"coverage": {"exhaustive": True, "configurations_enumerated": n}}
