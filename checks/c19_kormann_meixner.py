"""C19 - Kormann-Meixner reference equals its published closed form for all inputs.

Reference-model monitor: the footprint is re-evaluated from Kormann & Meixner
(2001) eqs. (9), (11), (18)-(21), (31)-(36) with an own rotation into
along/cross-wind coordinates, next to every observed call.
"""

import math

ID = "C19"
LEVEL = "exploration"
RULE = (
    "seeded random physically consistent (zm, z0, ws, ustar, L, sigma_v) over both stabilities, grid resolutions res in "
    "[zm/8, 2 zm], receptor positions on and off grid symmetry, wind direction {None, multiples of 90, arbitrary}; per case: "
    "closed-form cell-by-cell comparison, int/float parity in every scalar position (Python int, np.int32, np.int64), sign / "
    "downwind-zero / symmetry, rot90 relation, mass vs regularised incomplete gamma under grid halving, estimateZ0 inversion "
    "and rotation invariance.  non-trivial = footprint has > 10 positive cells; distinct = distinct parameter tuples"
)
ASSUMPTIONS = [
    "closed form written from the paper with scipy.special.gamma / gammaincc",
    "mass residual thresholds 0.4 / 3e-2 / 1.5e-3 / 3e-5 at res = ell/1,2,4,8 (ell = footprint scale) are calibrated constants with a 3x margin (DESIGN C19)",
]
MIN_NONTRIVIAL = {"quick": 100, "thorough": 3600}
TIMEOUT = {"quick": 600, "thorough": 7000}
K = 0.4
MASS_T = {1: 0.4, 2: 3e-2, 4: 1.5e-3, 8: 3e-5}


def cases(tier, seed):
    n = 200 if tier == "quick" else 21600
    return [{"seed": seed, "idx": i} for i in range(n)]


# ------------------------------------------------------------------ oracle (paper)


def km_params(zm, z0, ws, ustar, L):
    from scipy.special import gamma

    zL = zm / L
    if L < 0:
        zeta = (1 - 16 * zL) ** 0.25
        phi_m = 1 / zeta
        phi_c = (1 - 16 * zL) ** -0.5
        psi_m = -2 * math.log((1 + zeta) / 2) - math.log((1 + zeta**2) / 2) + 2 * math.atan(zeta) - math.pi / 2
        n = (1 - 24 * zL) / (1 - 16 * zL)
    else:
        phi_m = phi_c = 1 + 5 * zL
        psi_m = 5 * zL
        n = 1 / (1 + 5 * zL)
    m = ustar * phi_m / (K * ws)  # eq. 36
    kappa = K * ustar * zm / (phi_c * zm**n)  # eqs. 11, 32
    U = ustar / K * (math.log(zm / z0) + psi_m) / zm**m  # eqs. 11, 31
    r = 2 + m - n
    mu = (1 + m) / r
    xi = U * zm**r / (r * r * kappa)  # eq. 19
    return dict(m=m, n=n, kappa=kappa, U=U, r=r, mu=mu, xi=xi, g_mu=float(gamma(mu)), g_1r=float(gamma(1 / r)))


def km_oracle(P, sigma_v, along, cross, res):
    import numpy as np

    m, r, mu, xi, U, kappa = P["m"], P["r"], P["mu"], P["xi"], P["U"], P["kappa"]
    out = np.zeros_like(along)
    up = along > 0
    x, y = along[up], cross[up]
    f = xi**mu * x ** (-1 - mu) * np.exp(-xi / x) / P["g_mu"]  # eq. 21
    ubar = P["g_mu"] / P["g_1r"] * (r * r * kappa / U) ** (m / r) * U * x ** (m / r)  # eq. 18
    sig = sigma_v * x / ubar
    Dy = np.exp(-0.5 * (y / sig) ** 2) / (math.sqrt(2 * math.pi) * sig)  # eq. 9
    out[up] = Dy * f * res * res
    return out


def cell_centres(dom, res):
    import numpy as np

    xmin, xmax, ymin, ymax = dom
    return np.meshgrid(np.arange(xmin + 0.5 * res, xmax, res), np.arange(ymax - 0.5 * res, ymin, -res))


def along_cross(gx, gy, mxy, wd):
    import numpy as np

    dx, dy = gx - mxy[0], gy - mxy[1]
    if wd is None:
        return dx, dy
    a = math.radians(wd)
    return dx * math.sin(a) + dy * math.cos(a), -dx * math.cos(a) + dy * math.sin(a)


def draw_params(rng):
    zm = float(rng.uniform(2, 50))
    z0 = float(zm * 10 ** rng.uniform(-3, -1))
    if rng.random() < 0.5:
        L = -float(10 ** rng.uniform(math.log10(max(5.0, zm / 5.0)), 4))
    else:
        L = float(10 ** rng.uniform(math.log10(max(5.0, zm / 1.5)), 4))
    un = rng.random()
    if un < 0.08:      # neutral stratification written as an infinite / practically infinite Obukhov length
        L = float(rng.choice([math.inf, -math.inf, 1e12, -1e12, 1e300]))
    ustar = float(rng.uniform(0.1, 1.0))
    P0 = km_params(zm, z0, 1.0, ustar, L)
    # log-law wind at zm, perturbed (the function takes ws and z0 independently)
    zL = zm / L
    psi = 5 * zL if L > 0 else None
    if L < 0:
        zeta = (1 - 16 * zL) ** 0.25
        psi = -2 * math.log((1 + zeta) / 2) - math.log((1 + zeta**2) / 2) + 2 * math.atan(zeta) - math.pi / 2
    ulog = ustar / K * (math.log(zm / z0) + psi)
    ws = float(ulog * rng.uniform(0.8, 1.25))
    sigma_v = float(ustar * rng.uniform(1.2, 3.0))
    return zm, z0, ws, ustar, L, sigma_v, ulog


def run_case(case):
    import warnings

    import numpy as np
    from scipy.special import gammaincc
    from bldfm import ffm_kormann_meixner as _KM
    from vlib import purity
    import types

    # the functions under test behind the argument-purity monitor (vlib.purity)
    KM = types.SimpleNamespace(**{n: getattr(_KM, n) for n in dir(_KM) if not n.startswith("__")})
    KM.estimateFootprint = purity.guarded(_KM.estimateFootprint, "estimateFootprint")
    KM.estimateZ0 = purity.guarded(_KM.estimateZ0, "estimateZ0")
    from vlib import gen

    rng = gen.rng_for(case["seed"], "C19", case["idx"])
    viol, buckets = [], {}
    resid = {"closed_form_rel": 0.0, "symmetry_rel": 0.0, "rot90_rel": 0.0, "z0_inversion_rel": 0.0}
    counters = {"footprint_calls": 0, "int_parity_calls": 0, "mass_series": 0, "z0_calls": 0, "skipped_U_nonpositive": 0}

    for _ in range(20):
        zm, z0, ws, ustar, L, sigma_v, ulog = draw_params(rng)
        if ulog > 0.3 * ustar / K:
            break
    else:
        return {"evals": 0, "nontrivial": False, "skipped": "no physically consistent draw"}
    P = km_params(zm, z0, ws, ustar, L)
    stab = "unstable" if L < 0 else "stable"
    warnings.simplefilter("error")  # a warning from the model on consistent inputs is an observation worth failing on

    def call(*a, **k):
        counters["footprint_calls"] += 1
        return KM.estimateFootprint(*a, **k)

    # ---------------------------------------------------------------- (a) closed form, cell by cell
    res = float(zm * rng.uniform(0.125, 2.0))
    ncell = int(rng.integers(12, 40))
    wdkind = str(rng.choice(["none", "cardinal", "arbitrary", "near_cardinal", "integer_typed"]))
    if case["idx"] % 10 == 7:
        wdkind = "none"
    wd = None if wdkind == "none" else (float(rng.choice([0, 90, 180, 270, 0, 90, 180, 270, 360, 450, 540, 630, 720, -90, -180, -270, -360])) if wdkind == "cardinal" else float(rng.uniform(0, 360)))
    if wdkind == "near_cardinal":
        # a hair beside a multiple of 90 degrees (what rad2deg(arctan2(-u, -v)) returns for a wind that is cardinal up to round-off)
        c90 = float(rng.choice([90.0, 180.0, 270.0, 360.0]))
        wd = float(rng.choice([np.nextafter(c90, 0.0), c90 - 1e-12, c90 - 1e-10, (c90 % 360.0) + 1e-12, (c90 % 360.0) + 1e-9]))
    wd_arg = wd
    if wdkind == "integer_typed":
        # whole degrees handed over as Python int / signed / unsigned numpy integers (a logger's "unsigned short" column)
        wd = float(rng.integers(0, 360))
        # (numpy promotes 8- and 16-bit integers to half / single precision in deg2rad: those types are left out, their storage
        # rounding is not what the clause is about)
        wd_arg = [int, np.int64, np.int32, np.uint32, np.uint64][int(rng.integers(5))](wd)
        wd = float(wd_arg)
    half = ncell * res / 2
    mxy = (float(rng.uniform(-0.3, 0.3) * half), float(rng.uniform(-0.3, 0.3) * half))
    dom = (-half, half, -half * 0.8, half * 0.8)
    if case["idx"] % 5 == 3:
        # the receptor exactly on a cell centre (an odd number of cells around a tower, a tower placed on the raster): the along-wind
        # distance of that cell (without wd: of its whole column) is exactly zero
        ix_, iy_ = int(rng.integers(2, ncell - 2)), int(rng.integers(2, max(3, int(0.8 * ncell) - 2)))
        mxy = (-half + (ix_ + 0.5) * res, -half * 0.8 + (iy_ + 0.5) * res)
    if case["idx"] % 10 == 7 and wd_arg is None:
        # wind-aligned raster centred on the receptor across the wind (bounds symmetric about it) - whatever the cell size does to the rows
        mxy = (mxy[0], 0.0)
        buckets["wind_aligned_raster_centred_on_receptor"] = 1
    if case["idx"] % 5 == 1:
        # the receptor on an edge or a corner of the raster, or beside it (a tower next to the mapped area): every cell then lies on one
        # side of it in map coordinates, whatever the wind
        ek = int(rng.integers(6))
        ex_, ey_ = dom[1], dom[3]
        mxy = [(ex_, float(rng.uniform(dom[2], dom[3]) * 0.5)), (ex_, ey_), (ex_, dom[2]), (ex_ + res * float(rng.integers(1, 4)), 0.0), (dom[0], float(rng.uniform(dom[2], dom[3]) * 0.5)),
               (float(rng.uniform(dom[0], dom[1]) * 0.5), ey_)][ek]
        buckets["receptor_on_edge_or_beside_the_raster"] = 1
    try:
        gx, gy, ffm = call(zm, z0, ws, ustar, L, sigma_v, dom, res, mxy, wd=wd_arg)
    except Warning as w:
        viol.append({"what": "warning_on_consistent_input", "msg": str(w), "params": (zm, z0, ws, ustar, L, sigma_v)})
        return {"evals": 1, "nontrivial": False, "violations": viol}
    if not np.all(np.isfinite(ffm)):
        viol.append({"what": "footprint_not_finite", "cells": int((~np.isfinite(ffm)).sum()), "receptor": mxy, "wd": wd, "res": res,
                     "params": dict(zm=zm, z0=z0, ws=ws, ustar=ustar, L=L, sigma_v=sigma_v)})
    ex, ey = cell_centres(dom, res)
    if gx.shape != ex.shape or not (np.array_equal(gx, ex) and np.array_equal(gy, ey)):
        viol.append({"what": "grid_coordinates", "shape": gx.shape, "expected": ex.shape})
    al, cr = along_cross(ex, ey, mxy, wd)
    ref = km_oracle(P, sigma_v, al, cr, res)
    scale = float(ref.max()) or 1.0
    # where the footprint has decayed into the subnormal range (a receptor far beside the raster; thorough seeds 6 and 8: peaks of 1e-318
    # and 1e-313) an intermediate product is quantised to 4.9e-324 before it is multiplied by the cell area: an absolute allowance of
    # 64 quanta times the cell area on top of the relative tolerance (it is 1e-300 of any footprint that matters)
    sub_floor = 64 * 4.94e-324 * max(1.0, res * res)
    # cells whose along-wind coordinate is within rounding of zero may fall on either side of the receptor
    amb = np.abs(al) < 1e-9 * half
    d = np.clip(np.abs(ffm - ref) - sub_floor, 0.0, None)
    d[amb] = 0
    rel = float(d.max() / scale)
    resid["closed_form_rel"] = rel
    if not rel <= 1e-10:
        i = np.unravel_index(int(np.argmax(d)), d.shape)
        viol.append({"what": "differs_from_published_closed_form", "params": dict(zm=zm, z0=z0, ws=ws, ustar=ustar, L=L, sigma_v=sigma_v),
                     "res": res, "wd": wd, "cell": i, "got": float(ffm[i]), "expected": float(ref[i]), "rel": rel})
    # the same height and stability with another wind / friction velocity / roughness, in the same process, and then the first
    # parameters again: every call must be the closed form of ITS OWN arguments (no state carried between calls)
    ws_b, us_b, z0_b = float(ws * rng.uniform(1.3, 2.0)), float(ustar * rng.uniform(0.5, 0.8)), float(z0 * rng.uniform(0.2, 5.0))
    z0_b = min(z0_b, 0.2 * zm)
    Pb = km_params(zm, z0_b, ws_b, us_b, L)
    if Pb["U"] > 0:
        for lab, (z0x, wsx, usx, Px) in (("second", (z0_b, ws_b, us_b, Pb)), ("first_again", (z0, ws, ustar, P))):
            try:
                _, _, fb = call(zm, z0x, wsx, usx, L, sigma_v, dom, res, mxy, wd=wd)
            except Warning:
                continue
            refb = km_oracle(Px, sigma_v, al, cr, res)
            db = np.clip(np.abs(fb - refb) - sub_floor, 0.0, None)   # (subnormal allowance, as above)
            db[amb] = 0
            relb = float(db.max() / (float(refb.max()) or 1.0))
            resid["closed_form_rel"] = max(resid["closed_form_rel"], relb)
            if relb > 1e-10:
                viol.append({"what": "differs_from_published_closed_form", "history": f"{lab} call with the same zm and L, other ws/ustar/z0",
                             "params": dict(zm=zm, z0=z0x, ws=wsx, ustar=usx, L=L, sigma_v=sigma_v), "rel": relb})
    if (ffm < 0).any():
        viol.append({"what": "negative_cell", "min": float(ffm.min())})
    if (ffm[(al < -1e-9 * half)] != 0).any():
        viol.append({"what": "nonzero_downwind_cell", "wd": wd})
    npos = int((ffm > 0).sum())

    # ---------------------------------------------------------------- (b) integer / float parity
    Lfin = L if math.isfinite(L) and abs(L) < 2e9 else math.copysign(10**9, L)  # integer-typed twin of an (almost) infinite length (fits int32)
    zi, Li = int(round(zm)) or 1, int(round(Lfin)) or (1 if L > 0 else -1)
    z0i = 1 if zi >= 6 else None
    wsi, usi, svi, resi = max(1, int(round(ws))), 1, max(1, int(round(sigma_v))), max(1, int(round(res)))
    domi = (-resi * 10, resi * 10, -resi * 8, resi * 8)
    base_f = dict(zm=float(zi), z0=float(z0i) if z0i else z0, ws=float(wsi), ustar=float(usi), mo_len=float(Li), sigma_v=float(svi))
    okU = km_params(base_f["zm"], base_f["z0"], base_f["ws"], base_f["ustar"], base_f["mo_len"])["U"] > 0
    if okU:
        try:
            fx, fy, ff = call(base_f["zm"], base_f["z0"], base_f["ws"], base_f["ustar"], base_f["mo_len"], base_f["sigma_v"],
                              [float(v) for v in domi], float(resi), (0.0, 0.0), wd=wd)
        except Warning as w:
            ff = None
        if ff is not None:
            for tname, T in (("int", int), ("np.int64", np.int64), ("np.int32", np.int32)):
                for pos in ("zm", "z0", "ws", "ustar", "mo_len", "sigma_v", "all"):
                    if pos == "z0" and not z0i:
                        continue
                    kw = dict(base_f)
                    for nm in (list(kw) if pos == "all" else [pos]):
                        if nm == "z0" and not z0i:
                            continue
                        kw[nm] = T(kw[nm])
                    dm = [T(v) for v in domi] if pos == "all" else [float(v) for v in domi]
                    rs = T(resi) if pos == "all" else float(resi)
                    counters["int_parity_calls"] += 1
                    try:
                        with np.errstate(all="ignore"):
                            _, _, fi = KM.estimateFootprint(kw["zm"], kw["z0"], kw["ws"], kw["ustar"], kw["mo_len"], kw["sigma_v"], dm, rs,
                                                            (0, 0) if pos == "all" else (0.0, 0.0), wd=wd)
                    except Warning as w:
                        viol.append({"what": "integer_input_changes_result", "type": tname, "position": pos, "warning": str(w)[:200],
                                     "values": {k_: repr(v) for k_, v in kw.items()}})
                        continue
                    except Exception as e:  # noqa
                        viol.append({"what": "integer_input_raises", "type": tname, "position": pos, "exc": repr(e)[:200]})
                        continue
                    if fi.shape != ff.shape or not np.allclose(fi, ff, rtol=1e-12, atol=1e-300):
                        viol.append({"what": "integer_input_changes_result", "type": tname, "position": pos,
                                     "values": {k_: repr(v) for k_, v in kw.items()},
                                     "max_float": float(ff.max()), "max_int": float(np.nanmax(fi)) if fi.size else None})
            buckets["int_parity_exercised"] = 1
    else:
        counters["skipped_U_nonpositive"] += 1

    # ---------------------------------------------------------------- (c) symmetry about the wind axis
    k = int(rng.integers(6, 16))
    sdom = (-2 * res, (2 * k - 2) * res, -k * res, k * res)
    _, _, fs = call(zm, z0, ws, ustar, L, sigma_v, sdom, res, (0.0, 0.0))
    e = float(np.abs(fs - fs[::-1, :]).max() / (fs.max() or 1.0))
    resid["symmetry_rel"] = e
    if not e <= 1e-11:
        viol.append({"what": "not_symmetric_about_wind_axis", "rel": e})

    # ---------------------------------------------------------------- (e) rotating the wind rotates the footprint
    rdom = (-k * res, k * res, -k * res, k * res)
    wd0 = float(rng.choice([0.0, 37.0, 90.0, 123.5, float(rng.uniform(0, 360))]))
    _, _, f0 = call(zm, z0, ws, ustar, L, sigma_v, rdom, res, (0.0, 0.0), wd=wd0)
    for q in (1, 2, 3):
        _, _, fq = call(zm, z0, ws, ustar, L, sigma_v, rdom, res, (0.0, 0.0), wd=(wd0 + 90 * q) % 360)
        e = float(np.abs(fq - np.rot90(f0, -q)).max() / (f0.max() or 1.0))
        resid["rot90_rel"] = max(resid["rot90_rel"], e)
        if not e <= 1e-9:
            viol.append({"what": "rotation_by_90_does_not_rotate_footprint", "wd": wd0, "quarter_turns": q, "rel": e})

    # ---------------------------------------------------------------- (d) mass -> regularised incomplete gamma
    # along-wind grid (no wd); crosswind half-extent >= 8 sigma(X_up).  "As the grid is refined" is made a bounded
    # statement on the footprint's own length scale ell = min(x_peak, 2.5 sigma(x_peak)), x_peak = xi/(1+mu):
    # |sum - gammaincc(mu, xi/X_up)| <= T[div] at res = ell/div (calibrated: worst of 800 draws 0.134, 9.5e-3, 4.4e-4, 7.4e-6).
    def ubar_at(x):
        return P["g_mu"] / P["g_1r"] * (P["r"] ** 2 * P["kappa"] / P["U"]) ** (P["m"] / P["r"]) * P["U"] * x ** (P["m"] / P["r"])

    Xup = float(P["xi"] * rng.uniform(3, 12))
    sigX = sigma_v * Xup / ubar_at(Xup)
    xpk = P["xi"] / (1 + P["mu"])
    ell = min(xpk, 2.5 * sigma_v * xpk / ubar_at(xpk))
    series = []
    for div in (1, 2, 4, 8):
        rs = ell / div
        nxc = int(math.ceil(Xup / rs))
        nyc = int(math.ceil(8 * sigX / rs)) + 1
        if nxc * 2 * nyc > 3_000_000:
            break
        X_up = nxc * rs
        _, _, fm = call(zm, z0, ws, ustar, L, sigma_v, (0.0, X_up, -nyc * rs, nyc * rs), rs, (0.0, 0.0))
        target = float(gammaincc(P["mu"], P["xi"] / X_up))
        series.append((div, float(fm.sum()) - target, target))
    if series:
        counters["mass_series"] += 1
        counters["mass_levels"] = counters.get("mass_levels", 0) + len(series)
        for div, r_, target in series:
            a = abs(r_)
            resid[f"mass_div{div}"] = a
            if a > MASS_T[div]:
                viol.append({"what": "mass_not_approaching_incomplete_gamma", "series": series, "ell": ell,
                             "params": dict(zm=zm, z0=z0, ws=ws, ustar=ustar, L=L, sigma_v=sigma_v), "mu": P["mu"], "xi": P["xi"]})
                break

    # ---------------------------------------------------------------- (f) estimateZ0
    nobs = int(rng.choice([64, 720]))  # sparse, and dense enough to populate every 1-degree bin
    zmv = np.full(nobs, zm)
    usv = rng.uniform(0.1, 1.0, nobs)
    Lv = np.where(rng.random(nobs) < 0.5, -1, 1) * 10 ** rng.uniform(1.2, 4, nobs)
    z0v = zm * 10 ** rng.uniform(-3, -1, nobs)
    psi = gen.psi_m(zm / Lv)
    wsv = usv / K * (np.log(zm / z0v) + psi)
    good = wsv > 0.05
    wdv = (rng.integers(0, 360 * 8, nobs) / 8.0).astype(float)  # dyadic fractions of a degree
    with np.errstate(all="ignore"):
        warnings.simplefilter("ignore")
        zraw = KM.estimateZ0(zmv, wsv, wdv, usv, Lv, half_wd_win=0)
        counters["z0_calls"] += 1
        back = usv / K * (np.log(zm / zraw) + psi)
        e = float(np.nanmax(np.abs(back[good] - wsv[good]) / wsv[good]))
        resid["z0_inversion_rel"] = e
        if e > 1e-10 or np.isnan(zraw[good]).any():
            viol.append({"what": "estimateZ0_does_not_invert_log_law", "rel": e})
        win = float(rng.choice([22, 22, 5, 1, 45, 22.5, 10]))
        if case["idx"] % 3 == 0:
            # a few very stable light-wind records whose raw estimate is absurd (thousands of metres: screened out by the function) among
            # the ordinary ones - what their neighbours in direction get is still a median of ordinary estimates
            for j_ in rng.choice(nobs, size=3, replace=False):
                Lv[j_], wsv[j_], usv[j_] = float(zm / 2.0), 1.0, 0.2
            zraw = KM.estimateZ0(zmv, wsv, wdv, usv, Lv, half_wd_win=0)
            buckets["z0_series_with_screened_outliers"] = 1
        zs = KM.estimateZ0(zmv, wsv, wdv, usv, Lv, half_wd_win=win)
        # the smoothed value of a record is a median of raw estimates of its direction window: finite whenever the window holds a finite
        # raw estimate, and never outside the range of those estimates
        kkv = np.floor(wdv)
        n_med = 0
        for j_ in range(0, nobs, max(1, nobs // 48)):
            dlt = (wdv - kkv[j_] + 180.0) % 360.0 - 180.0
            inw = (dlt >= -win) & (dlt < 1 + win) & np.isfinite(zraw)
            if inw.any() and wdv[j_] < 360.0:
                n_med += 1
                lo_, hi_ = float(np.min(zraw[inw])), float(np.max(zraw[inw]))
                if not (np.isfinite(zs[j_]) and lo_ * (1 - 1e-12) <= zs[j_] <= hi_ * (1 + 1e-12)):
                    viol.append({"what": "smoothed_z0_is_not_a_median_of_its_direction_window", "record": int(j_), "got": float(zs[j_]), "window_range": (lo_, hi_),
                                 "window": win, "finite_raw_estimates_in_window": int(inw.sum())})
                    break
        counters["z0_window_median_checks"] = counters.get("z0_window_median_checks", 0) + n_med
        for rot in (int(rng.integers(1, 360)), 90, 271, 10, 180, 338):
            zr = KM.estimateZ0(zmv, wsv, (wdv + rot) % 360.0, usv, Lv, half_wd_win=win)
            counters["z0_calls"] += 1
            if not np.array_equal(zs, zr, equal_nan=True):
                viol.append({"what": "estimateZ0_not_rotation_invariant", "rotation_deg": rot, "window": win,
                             "n_changed": int((~((zs == zr) | (np.isnan(zs) & np.isnan(zr)))).sum())})
                break
        # integer-typed observation arrays
        zint = KM.estimateZ0(np.full(nobs, int(round(zm)) or 1), wsv, wdv, usv, Lv, half_wd_win=0)
        zflt = KM.estimateZ0(np.full(nobs, float(int(round(zm)) or 1)), wsv, wdv, usv, Lv, half_wd_win=0)
        if not np.allclose(zint, zflt, rtol=1e-12, equal_nan=True):
            viol.append({"what": "integer_input_changes_result", "function": "estimateZ0", "position": "zm"})
    warnings.simplefilter("default")

    b = {f"stab:{stab}": 1, f"wd:{wdkind}": 1, f"res/zm:{'<=0.25' if res <= zm/4 else '<=1' if res <= zm else '>1'}": 1}
    b.update(buckets)
    return {"evals": counters["footprint_calls"] + counters["int_parity_calls"] + counters["z0_calls"], "nontrivial": npos > 10,
            "sig": f"{zm:.4f}|{z0:.5f}|{L:.2f}|{ustar:.3f}|{res:.3f}|{wd}", "buckets": b, "resid": resid, "counters": counters,
            "violations": viol,
            "sample": {"zm": zm, "z0": z0, "ws": ws, "ustar": ustar, "L": L, "sigma_v": sigma_v, "res": res, "wd": wd, "receptor": mxy,
                       "m": P["m"], "n": P["n"], "mu": P["mu"], "xi": P["xi"], "positive_cells": npos, "mass_series": series}}
