"""C05 - uniform profiles: analytic mode is the closed form; numerics reach design order.

Reference-model monitor (a): numpy evaluation of the half-space solution written
from the PDE, compared in Fourier space with every analytic-mode call.
Error-law monitor (b): numeric vs analytic at n, 2n, 4n layers with halo,
truncation, measurement-point shift and crop switched on.
"""

ID = "C05"
LEVEL = "exploration"
RULE = (
    "seeded random constant (u, v, Kx, Ky, Kz) with Kz>0, anisotropic, any direction x domains/grids dx != dy x sources x level sets; "
    "(a) analytic-mode output vs closed form for every retained wavenumber strictly inside the cut-off (halo=0, full and truncated "
    "modes, dispersion and footprint, multi-level, background); (b) L2 numeric-analytic error at n, 2n, 4n, 8n layers (uniform and "
    "geometric grids; halo classes, truncated modes, footprint and dispersion, shifted measurement point): E(2n)/E(8n) >= 36 whenever "
    "the smaller error is above the rounding floor and |T|dz^2/Kz <= 0.5 on the coarsest grid.  non-trivial = (a) >= 8 retained "
    "modes; (b) qualifying refinement triple; distinct = distinct (idx, kind)"
)
ASSUMPTIONS = [
    "gain threshold 36 from 2n to 8n separates third order (>= 57.5 on 1803 qualifying cases of the repaired tree) from second order (<= 23.3 on 894 cases of the pinned tree)",
    "rounding floor for the ratio: smaller error > max(1e-11, 1.3e-11 e^G); refinement cases drawn with G <= 10",
]
MIN_NONTRIVIAL = {"quick": 120, "thorough": 8000}
TIMEOUT = {"quick": 900, "thorough": 7000}


def cases(tier, seed):
    n = 160 if tier == "quick" else 36000
    out = [{"seed": seed, "idx": i, "kind": "closed_form"} for i in range(n)]
    out += [{"seed": seed, "idx": i, "kind": "order"} for i in range(2 * n)]
    # deep columns: the highest retained components decay by e^-40 .. e^-70 over the column (far beyond what the top node can
    # resolve in double precision) while the output level sits in the lowest eighth, where they are still well resolved
    out += [{"seed": seed, "idx": i, "kind": "order", "deep": True, "_cost": 3} for i in range(n // 5)]
    # large spectra: more than 512 x 512 retained components (above the default mode count; where an implementation that works
    # through the spectrum in blocks or switches algorithm by size would first do so), judged component by component
    out += [{"seed": seed, "idx": i, "kind": "large", "_cost": 25} for i in range(3 if tier == "quick" else 64)]
    return out


def run_case(case):
    if case["kind"] == "large":
        return large(case)
    return closed_form(case) if case["kind"] == "closed_form" else order(case)


def large(case):
    """More than 512 x 512 retained components: every resolved component of the numerical mode converges to the closed form."""
    import numpy as np
    from vlib import gen, solve, oracles

    rng = gen.rng_for(case["seed"], "C05L", case["idx"])
    shapes = [(768, 512), (512, 768), (1024, 288), (600, 450), (514, 512), (520, 506), (700, 376), (1100, 240)]
    nx, ny = shapes[int(rng.integers(len(shapes)))] if case["idx"] >= 3 else shapes[case["idx"]]
    trunc = bool(rng.random() < 0.35)
    gx, gy = (nx, ny)
    if trunc:
        # the same retained count on a larger grid (truncation switched on)
        gx, gy = nx + 2 * int(rng.integers(8, 40)), ny + 2 * int(rng.integers(8, 40))
    dx = float(rng.uniform(2.0, 20.0))
    dy = float(dx * rng.uniform(0.6, 1.6))
    U, th = float(rng.uniform(1.0, 8.0)), float(rng.uniform(0, 2 * np.pi))
    H = float(rng.uniform(1.2, 2.0) * min(dx, dy))          # a shallow column: growth of the fastest retained component <= ~10
    K = float(U * H / 10 ** rng.uniform(0.0, 1.2))
    ax, ay = float(rng.uniform(0.5, 2.0)), float(rng.uniform(0.5, 2.0))
    const = (U * np.cos(th), U * np.sin(th), ax * K, ay * K, K)
    z0 = float(0.02 * H)
    n0 = int(rng.integers(3, 7))
    kxm, kym = np.pi * nx / (dx * gx), np.pi * ny / (dy * gy)
    lv_frac = float(rng.choice([1.0, 0.5]))
    out = {}
    G = None
    calls = 0
    for mult in (1, 4):
        n = 2 * n0 * mult
        z = np.linspace(z0, H, n + 1)
        prof = tuple(np.full(n + 1, c) for c in const)
        if G is None:
            G = gen.growth(z, prof, kxm, kym)
            res_ = None
        St = {"z": z, "profiles": prof, "domain": (gx * dx, gy * dy), "halo": 0.0, "modes": (nx, ny)}
        q0 = np.zeros((gy, gx))
        q0[0, 0] = 1.0
        L = int(round(n * lv_frac))
        _, cn, fn = solve.solve(St, q0, L, precision="double")
        _, ca, fa = solve.solve(St, q0, L, analytic=True, precision="double")
        calls += 2
        N = gx * gy
        out[mult] = (np.fft.fft2(fn) - np.fft.fft2(fa), np.fft.fft2(cn) - np.fft.fft2(ca), np.fft.fft2(fa), np.fft.fft2(ca), z)
    if G > 12.0:
        return {"evals": 0, "nontrivial": False, "skipped": "G > 12 for the large-spectrum set-up"}
    KX, KY, ok = oracles.mode_wavenumbers(gx, gy, dx, dy)
    inside = solve.spectrum_mask(gy, gx, ny, nx) & ok
    # resolved on the coarse grid: |T| dz^2 / Kz <= 0.5
    dzc = (H - z0) / (2 * n0)
    T = np.abs(const[2] * KX**2 + const[3] * KY**2 + 1j * (const[0] * KX + const[1] * KY))
    m = inside & (T * dzc * dzc / const[4] <= 0.5)
    nm = int(m.sum())
    viol, resid = [], {}
    floor = 1e-10 * float(np.exp(G))
    for name, k_ in (("flx", 0), ("conc", 1)):
        ref = float(np.max(np.abs(out[4][2 + k_][m]))) or 1.0
        e1 = np.abs(out[1][k_]) / ref
        e4 = np.abs(out[4][k_]) / ref
        E1, E4 = float(e1[m].max()), float(e4[m].max())
        resid[f"large_spectrum_{name}_fine_over_coarse"] = E4 / E1 if E1 > 0 else 0.0
        if not E4 <= E1 / 10.0 + floor:
            j, i = np.unravel_index(int(np.argmax(np.where(m, e4, 0.0))), e4.shape)
            viol.append({"what": "large_spectrum_component_does_not_converge_to_closed_form", "field": name, "coarse_error": E1, "fine_error": E4,
                         "worst_component": (int(np.fft.fftfreq(gx, 1.0 / gx)[i]), int(np.fft.fftfreq(gy, 1.0 / gy)[j])), "grid": (gx, gy), "modes": (nx, ny),
                         "layers": (2 * n0, 8 * n0), "G": G, "const": const})
    b = {"c:large_spectrum": 1, "c:truncated" if trunc else "c:all_modes": 1, f"c:retained:{nx}x{ny}": 1}
    return {"evals": 2 * nm, "nontrivial": nm >= 1000 and nx * ny > 512 * 512, "sig": f"L|{case['idx']}", "buckets": b, "resid": resid,
            "counters": {"solver_calls": calls, "large_spectrum_components_compared": 2 * nm}, "violations": viol,
            "sample": {"grid": (gx, gy), "modes": (nx, ny), "dx": dx, "dy": dy, "H": H, "layers": (2 * n0, 8 * n0), "G": G, "components_compared": nm}}


def closed_form(case):
    import numpy as np
    from vlib import gen, solve, oracles

    rng = gen.rng_for(case["seed"], "C05a", case["idx"])
    St, _ = gen.draw_setup(rng, halo_classes=("zero",), profile_kinds=("constant",), mode_classes=("full", "trunc", "over", "mixed"), even=bool(rng.random() < 0.8))
    if St is None:
        return {"evals": 0, "nontrivial": False, "skipped": "no draw inside the conditioning guard"}
    if case["idx"] % 6 == 5:
        # very strongly damped components (a fine grid under a tall column: the highest retained component decays by e^-700 .. e^-1500,
        # below the range of double precision): the closed-form branch has no conditioning limit, such a component is simply zero aloft
        zz_ = np.asarray(St["z"], dtype=float)
        kx_, ky_, _, _ = gen.wavenumbers(St["nx"], St["ny"], St["dx"], St["dy"], 0, 0, St["modes"])
        g_ = gen.growth(zz_, St["profiles"], kx_, ky_)
        s_ = float(rng.uniform(750.0, 1500.0)) / max(g_, 1e-9)
        St = dict(St, z=zz_[0] + (zz_ - zz_[0]) * s_, G=0.0)
    zeroed = {1: 1, 3: 0, 6: 2, 7: 3}.get(case["idx"] % 10)
    if zeroed is not None:
        # one coefficient identically zero at every node: wind along a grid axis (u or v exactly 0), no diffusion along one axis (Kx or
        # Ky exactly 0) - the closed form needs none of them; only one at a time, so that no component other than the mean loses its decay
        St = dict(St, profiles=tuple(p * 0.0 if i == zeroed else p for i, p in enumerate(St["profiles"])))
    nx, ny, dx, dy = St["nx"], St["ny"], St["dx"], St["dy"]
    z = St["z"]
    nz = len(z)
    const = tuple(float(p[0]) for p in St["profiles"])
    levels, lkind = solve.pick_levels(rng, nz)
    if case["idx"] % 12 == 5 and nz >= 3:
        # under very strong damping: the top first, then lower levels (a component that has underflowed aloft is still there below)
        levels, lkind = [nz - 1, int(rng.integers(1, nz - 1)), 0][: int(rng.integers(2, 4))], "descending_from_top"
    nl = solve.nlev(levels)
    lv = [int(levels)] if np.ndim(levels) == 0 else [int(i) for i in levels]
    fp = bool(rng.random() < 0.4)
    bg = 0.0 if fp else float(rng.choice([0.0, -3.0, 7.5]))
    q0, skind = gen.make_source(rng, ny, nx)
    viol, resid = [], {}
    desc = gen.describe(St)
    _, c, f = solve.solve(St, q0, levels, analytic=True, footprint=fp, srf_bg_conc=bg, precision="double")
    c, f = solve.as3d(c, nl), solve.as3d(f, nl)
    KX, KY, ok = oracles.mode_wavenumbers(nx, ny, St["domain"][0] / nx, St["domain"][1] / ny)
    mx, my = St["modes"]
    inside = solve.spectrum_mask(ny, nx, my, mx)
    if fp:
        # footprint at meas_pt (0,0): response to a unit source at the origin, point-reflected -> conjugate spectrum
        q0hat = np.ones((ny, nx), dtype=complex) / (nx * ny)
        C, F = np.conj(np.fft.fft2(c, norm="forward")), np.conj(np.fft.fft2(f, norm="forward"))
    else:
        q0hat = np.fft.fft2(q0, norm="forward")
        C, F = np.fft.fft2(c, norm="forward"), np.fft.fft2(f, norm="forward")
    P, Q = oracles.halfspace_closed_form(q0hat, KX, KY, const, z[lv] - z[0], bg=bg)
    m = inside & (ok | ((KX == 0) & (KY == 0)))
    nm = int(m.sum())
    allm = ok | ((KX == 0) & (KY == 0))
    u_, v_, Kx_, Ky_, Kz_ = const
    mu_abs = np.abs(np.sqrt((Kx_ * KX**2 + Ky_ * KY**2 + 1j * (u_ * KX + v_ * KY)) / Kz_))
    src = float(np.max(np.abs(q0hat)))
    floor = {"flx": src, "conc": src / (Kz_ * float(mu_abs.max()))}
    for name, A, B in (("flx", F, Q), ("conc", C, P)):
        # scale: never below the source spectrum's own magnitude (a smooth source may have no content inside the compared set,
        # e.g. only on the Nyquist column of a 4-cell axis: then everything compared is rounding noise)
        scale = max(float(np.max(np.abs(B[:, allm]))), floor[name], 1e-300)
        e = float(np.max(np.abs((A - B)[:, m]))) / scale
        resid[f"closed_form_{name}"] = e
        if not e <= 1e-9:
            viol.append({"what": "analytic_mode_differs_from_closed_form", "field": name, "rel": e, "footprint": fp, "levels": lv, "bg": bg,
                         "setup": desc})
    # ... and in physical space, the components on the cut-off itself included: the retained set of an even count m along an axis of n > m
    # cells is the index range -m/2 .. m/2 - 1 (m of them; the lowest one has no partner), each with its own closed-form response; what
    # comes out is the real part of their sum.  (The Fourier-space clause above leaves the cut-off row / column and the grid's Nyquist
    # out; a synthesis that assumes a Hermitian spectrum, or a response computed for +m/2 instead of -m/2, shows only here.)
    mxe, mye = (nx, ny) if (mx > nx or my > ny) else (mx, my)
    if (mxe == nx or mxe % 2 == 0) and (mye == ny or mye % 2 == 0):
        ixf, iyf = np.fft.fftfreq(nx, 1.0 / nx), np.fft.fftfreq(ny, 1.0 / ny)
        kpx = np.ones(nx, bool) if mxe == nx else ((ixf >= -mxe / 2) & (ixf <= mxe / 2 - 1))
        kpy = np.ones(ny, bool) if mye == ny else ((iyf >= -mye / 2) & (iyf <= mye / 2 - 1))
        keep = kpy[:, None] & kpx[None, :]
        with np.errstate(all="ignore"):
            Pk, Qk = np.where(keep[None], np.nan_to_num(P), 0.0), np.where(keep[None], np.nan_to_num(Q), 0.0)
        Ec, Ef = np.fft.ifft2(Pk, norm="forward").real, np.fft.ifft2(Qk, norm="forward").real
        if fp:   # tower at cell (0, 0): point reflection about it
            Jr, Ir = (-np.arange(ny)) % ny, (-np.arange(nx)) % nx
            Ec, Ef = Ec[:, Jr][:, :, Ir], Ef[:, Jr][:, :, Ir]
        ampf = float(np.max(np.abs(q0))) if not fp else 1.0
        for name, A, B, fl_ in (("flx", f, Ef, ampf), ("conc", c, Ec, ampf * float(z[-1] - z[0]) / Kz_ + abs(bg))):
            e = float(np.max(np.abs(A - B))) / max(float(np.max(np.abs(B))), fl_, 1e-300)
            resid[f"closed_form_physical_{name}"] = e
            if not e <= 1e-9:
                viol.append({"what": "analytic_mode_differs_from_closed_form", "space": "physical (cut-off components included)", "field": name, "rel": e,
                             "footprint": fp, "levels": lv, "bg": bg, "setup": desc})
    # outside the cut-off nothing may be left
    IX, IY = np.meshgrid(np.fft.fftfreq(nx, 1.0 / nx), np.fft.fftfreq(ny, 1.0 / ny))
    cx, cy = (mx, my) if (mx <= nx and my <= ny) else (nx, ny)
    out = (np.abs(IX) > cx / 2) | (np.abs(IY) > cy / 2)
    if out.any():
        e = float(np.max(np.abs(F[:, out]))) / max(float(np.max(np.abs(F))), 1e-300)
        resid["beyond_cutoff"] = e
        if not e <= 1e-12:
            viol.append({"what": "component_beyond_cutoff_survives_truncation", "rel": e, "setup": desc})
    b = {f"a:modes:{St['mode_class']}": 1, "a:footprint" if fp else "a:dispersion": 1, f"a:levels:{lkind}": 1,
         "a:zero_coefficient:" + ("none" if zeroed is None else "u v Kx Ky".split()[zeroed]): 1}
    return {"evals": 2 * nl, "nontrivial": nm >= 8, "sig": f"a|{case['idx']}", "buckets": b, "resid": resid,
            "counters": {"closed_form_modes_compared": nm * nl * 2, "solver_calls": 1}, "violations": viol,
            "sample": {"setup": desc, "levels": lv, "footprint": fp, "bg": bg, "modes_compared": nm}}


def order(case):
    import numpy as np
    from vlib import gen, solve

    rng = gen.rng_for(case["seed"], "C05b", case["idx"])
    St, _ = gen.draw_setup(rng, profile_kinds=("constant",), gmax=10.0, nzmin=2, nzmax=8, nmax=16, even=bool(rng.random() < 0.85))
    if St is None:
        return {"evals": 0, "nontrivial": False, "skipped": "no draw inside the conditioning guard (G<=10)"}
    nx, ny, dx, dy = St["nx"], St["ny"], St["dx"], St["dy"]
    # the resolved regime needs a moderate cell Peclet number: rescale the diffusivity so that U*zm/K is in [1, 30]
    U = float(np.hypot(St["profiles"][0][0], St["profiles"][1][0]))
    zm = float(St["z"][-1])
    calm = case["idx"] % 9 == 4
    if calm:
        # no wind at all (pure diffusion): the wind arrays are exactly zero at every node, the diffusivity is kept
        St["profiles"] = tuple(p * 0.0 if i < 2 else p for i, p in enumerate(St["profiles"]))
        St["pdesc"] = dict(St["pdesc"], U=0.0)
    else:
        Knew = U * zm / float(10 ** rng.uniform(0, 1.5))
        fac = Knew / float(St["profiles"][4][0])
        St["profiles"] = tuple(p if i < 2 else p * fac for i, p in enumerate(St["profiles"]))
        St["pdesc"] = dict(St["pdesc"], K=Knew)
    gridk = str(rng.choice(["uniform", "geometric", "expmap_weak"]))  # expmap_weak: almost uniform, each layer 1e-6 thicker than the last
    n0 = int(rng.integers(3, 13))
    z0c = float(St["z"][0]) if gridk == "uniform" else float(max(St["z"][0], 0.15 * zm))
    deep = bool(case.get("deep"))
    kx, ky, _, _ = gen.wavenumbers(nx, ny, dx, dy, St["px"], St["py"], St["modes"])
    Gcol = None
    if deep:
        gridk = "uniform"
        one2 = tuple(np.full(2, float(p[0])) for p in St["profiles"])
        lam = gen.growth(np.array([0.0, 1.0]), one2, kx, ky)          # growth per metre of the fastest retained component
        Gcol = float(rng.uniform(40.0, 70.0))
        n0 = int(np.ceil(1.5 * Gcol / 8.0)) * 8                       # (lambda dz)^2 <= 0.45 on the coarsest grid
        zm = z0c + Gcol / lam
    z = gen.vgrid(gridk, z0c, zm, n0)
    St["z"] = z
    St["profiles"] = tuple(np.full(n0 + 1, float(p[0])) for p in St["profiles"])
    const = [float(p[0]) for p in St["profiles"]]
    St["G"] = gen.growth(z, St["profiles"], kx, ky)
    if deep:
        St["G"] = St["G"] / 8.0   # growth up to the output level (an eighth of the column): what the rounding floor depends on
    if St["G"] > 10.0:
        return {"evals": 0, "nontrivial": False, "skipped": "G > 10 after rescaling"}
    res0 = gen.resolved(z, St["profiles"], kx, ky)
    desc = gen.describe(St)
    if res0 > 0.5:
        return {"evals": 0, "nontrivial": False, "skipped": "|T|dz^2/Kz > 0.5 on the coarsest grid", "buckets": {"b:unresolved": 1}}
    fp = bool(rng.random() < 0.5)
    q0, skind = gen.make_source(rng, ny, nx)
    mp = (float(rng.integers(nx)) * dx, float(rng.integers(ny)) * dy) if (fp or rng.random() < 0.5) else (0.0, 0.0)
    frac = float(rng.choice([1.0, 0.5, 0.25, 0.0]))  # output height as a fraction of the column (a node of every refinement; 0 = the surface)
    if deep:
        frac = 0.125
    errs = []
    calls = 0
    for mult in (1, 2, 4, 8):
        n = n0 * mult
        zz = gen.vgrid(gridk, float(z[0]), float(z[-1]), n)
        one = np.ones(n + 1)
        prof = tuple(cst * one for cst in const)
        S2 = dict(St)
        S2["z"], S2["profiles"] = zz, prof
        L = max(1, int(round(n * frac))) if (n0 * frac) >= 1 and float(n0 * frac).is_integer() else n
        if frac == 0.0:
            L = 0
        kw = dict(footprint=fp, meas_pt=mp, precision="double")
        # every other case asks for the surface as a second level, after the output height (a non-ascending request of two levels)
        Lreq = [L, 0] if (case["idx"] % 2 == 1 and L > 0) else L
        _, cn, fn = solve.solve(S2, q0, Lreq, **kw)
        _, ca, fa = solve.solve(S2, q0, Lreq, analytic=True, **kw)
        calls += 2
        # L2 norm over the field: a max-norm error can cross zero at one cell and make a single ratio meaningless
        e = max(float(np.linalg.norm(cn - ca)) / (float(np.linalg.norm(ca)) or 1.0), float(np.linalg.norm(fn - fa)) / (float(np.linalg.norm(fa)) or 1.0))
        errs.append(e)
    floor = max(1e-11, 1.3e-11 * float(np.exp(St["G"])))
    viol = []
    r1 = errs[0] / errs[1] if errs[1] > 0 else float("inf")
    r2 = errs[1] / errs[2] if errs[2] > 0 else float("inf")
    r3 = errs[2] / errs[3] if errs[3] > 0 else float("inf")
    qualifies = errs[3] > floor
    resid = {}
    if qualifies:
        resid["order_2n_to_8n_gain_inverse"] = 1.0 / (r2 * r3)
        # third order: from 2n to 8n layers the error must fall by more than 36 (third order: 64; calibrated on 1803 qualifying
        # triples of the repaired tree: >= 57.5; second order, 894 triples of the pinned tree: <= 23.3).  The coarsest step n -> 2n
        # is not judged: it is pre-asymptotic when |T|dz^2/Kz is just below 0.5.
        # ... unless the error at 2n is anomalously small (the leading error term changes sign near that resolution: observed ratios
        # (30.2, 2.9, 6.2) and (46.3, 2.4, 6.1) in 115 000 thorough cases): then the least-squares order over all four resolutions decides
        # (second order gives 2.0 .. 2.3 there; the two anomalies give 2.88 and 2.95)
        xs_ = np.array([-1.5, -0.5, 0.5, 1.5])
        ys_ = np.log2(np.array(errs))
        slope4 = -float(np.sum(xs_ * (ys_ - ys_.mean())) / 5.0)
        resid["order_least_squares_min"] = -slope4  # (max-merged: the smallest observed order, negated)
        # (thorough seed 9: a third-order case on a geometric grid of 7 layers, still pre-asymptotic, came out with gain 33 and a least-squares
        # order of 2.50; second order gives 2.0 .. 2.3 - the bar is 2.4)
        if r2 * r3 < 36 and slope4 < 2.4:
            viol.append({"what": "numerical_mode_not_third_order", "errors": errs, "ratios": (r1, r2, r3), "grid": gridk, "n0": n0, "footprint": fp,
                         "meas_pt": mp, "resolved": res0, "setup": desc})
    # a misregistration between the two branches is an O(1) difference, whatever the order
    # (a large coarse-grid error that converges away is not a misregistration)
    if errs[3] > 0.02 and errs[3] > errs[0] / 3:
        viol.append({"what": "numeric_and_analytic_branch_disagree", "errors": errs, "grid": gridk, "n0": n0, "footprint": fp, "meas_pt": mp,
                     "resolved": res0, "setup": desc})
    if deep:
        desc = dict(desc, column_growth=Gcol)
    b = {f"b:grid:{gridk}": 1, "b:deep_column" if deep else "b:shallow_column": 1, "b:calm" if calm else "b:windy": 1, f"b:halo:{St['halo_class']}": 1, f"b:modes:{St['mode_class']}": 1, "b:footprint" if fp else "b:dispersion": 1,
         "b:qualifies" if qualifies else "b:below_rounding_floor": 1}
    return {"evals": 3, "nontrivial": bool(qualifies), "sig": f"b|{case['idx']}", "buckets": b, "resid": resid,
            "counters": {"solver_calls": calls, "refinement_triples": 1}, "violations": viol,
            "sample": {"setup": desc, "errors": errs, "ratios": (r1, r2, r3), "n0": n0, "grid": gridk, "footprint": fp}}
