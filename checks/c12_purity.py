"""C12 - a solve is a pure function: history, threads and precision do not matter.

History monitor.  Model: the pure function, tabulated once per request by running
each request of the alphabet alone in a fresh subprocess with one thread.
Monitor: random call histories over {solve(r), NUM_THREADS <- k, FFT-manager
reset / re-creation, wisdom file dropped / poisoned / foreign, allocation noise};
after every solve the result is compared bit for bit with every earlier result of
the same (request, thread setting) in this process, and with the fresh-process
table; the process-state tuple is recorded.
"""

import os

ID = "C12"
LEVEL = "exploration"
RULE = (
    "alphabet of 57 requests (29 fixed incl. 100x100 / 144x100 grids + a base request with 21 one-argument-at-a-time variants and six single-precision twins of them covering every argument of the solver signature; incl. integer / list / numpy-integer / ndarray spellings and Fortran-ordered / transposed / strided source layouts of five requests, footprint/dispersion twins on identical geometry and same-shape different-physics pairs) (shapes 9x7 .. 48x40, odd sizes, truncated / over-requested modes, single and double precision, footprint and "
    "dispersion, default / zero / explicit halo, analytic, multi-level); histories of 60 operations drawn from {solve, set NUM_THREADS in "
    "1..8, reset_fft_manager, get_fft_manager(k), fftw_wisdom.pkl dropped / truncated / garbage / foreign, allocation noise}; 16 "
    "history runners execute concurrently (loaded machine).  non-trivial = a solve preceded by a different request, a thread change or a "
    "reset; distinct = distinct (state tuple -> request) transitions"
)
ASSUMPTIONS = [
    "bitwise equality is required for repeats with the same thread setting in one process; <= 1e-12 (double) / 1e-6 (single) of the field "
    "maximum across thread settings and against the fresh-process table; single vs double <= 1e-5 of the field maximum",
]
MIN_NONTRIVIAL = {"quick": 300, "thorough": 800}
TIMEOUT = {"quick": 1500, "thorough": 7000}
_table = {}


def cases(tier, seed):
    n = 32 if tier == "quick" else 960
    return [{"seed": seed, "idx": i, "_cost": 1} for i in range(n)]


def requests():
    """name -> kwargs builder (deterministic)."""
    import numpy as np
    from bldfm.pbl_model import vertical_profiles

    def col(n, zm, wind, **kw):
        z, p = vertical_profiles(n, zm, wind, **kw)
        return np.asarray(z, dtype=float), tuple(np.asarray(a, dtype=float) for a in p)

    rng = np.random.default_rng(20240612)
    R = {}
    z, p = col(8, 5.0, (3.0, -1.0), ustar=0.35, mol=-60.0, closure="MOST")
    q = rng.normal(size=(12, 16))
    R["r0"] = dict(srf_flx=q, z=z, profiles=p, domain=(160.0, 96.0), levels=8, modes=(16, 12), halo=0.0, precision="double")
    R["r1"] = dict(R["r0"], precision="single")
    z2, p2 = col(10, 6.0, (-2.0, 2.5), ustar=0.4, mol=150.0, closure="MOSTM")
    R["r2"] = dict(srf_flx=np.zeros((20, 24)), z=z2, profiles=p2, domain=(240.0, 160.0), levels=10, modes=(512, 512), halo=None,
                   precision="double", footprint=True, meas_pt=(120.0, 80.0))
    R["r3"] = dict(R["r2"], precision="single")
    R["r4"] = dict(srf_flx=rng.normal(size=(14, 10)), z=z, profiles=p, domain=(100.0, 112.0), levels=[2, 8], modes=(6, 8), halo=0.0,
                   precision="double", meas_pt=(30.0, 48.0), srf_bg_conc=1.5)
    R["r5"] = dict(srf_flx=np.zeros((32, 32)), z=z2, profiles=p2, domain=(320.0, 256.0), levels=[10, 3, 17], modes=(40, 40), halo=40.0,
                   precision="double", footprint=True, meas_pt=(160.0, 128.0))
    one = np.ones(9)
    zc = np.linspace(0.2, 6.0, 9)
    R["r6"] = dict(srf_flx=rng.normal(size=(12, 12)), z=zc, profiles=(2.0 * one, 1.0 * one, 0.8 * one, 0.5 * one, 0.6 * one),
                   domain=(120.0, 90.0), levels=[4, 8], modes=(12, 12), halo=15.0, precision="double", analytic=True)
    R["r7"] = dict(srf_flx=rng.normal(size=(7, 9)), z=z, profiles=p, domain=(90.0, 56.0), levels=5, modes=(20, 20), halo=0.0, precision="double")
    z8, p8 = col(12, 8.0, (4.0, 1.0), z0=0.1, mol=-200.0, closure="MOST")
    R["r8"] = dict(srf_flx=rng.normal(size=(40, 48)), z=z8, profiles=p8, domain=(480.0, 320.0), levels=12, modes=(48, 40), halo=0.0,
                   precision="double")
    R["r9"] = dict(R["r8"], precision="single")
    # same shapes as r0 (grid, modes, number of nodes), different physics: a shape-keyed memo would confuse them
    R["r10"] = dict(R["r0"], profiles=(p[1] * 1.2, -p[0] * 0.7, p[2] * 1.3, p[3] * 0.8, p[4] * 1.1))
    # mode twins: identical geometry, modes, halo and measurement point, footprint vs dispersion (state keyed by geometry only would mix them)
    R["r11"] = dict(R["r2"], footprint=False, srf_flx=rng.normal(size=(20, 24)))
    R["r12"] = dict(R["r5"], footprint=False, srf_flx=rng.normal(size=(32, 32)))
    R["r13"] = dict(R["r0"], footprint=True, meas_pt=(0.0, 0.0))
    R["r14"] = dict(R["r4"], footprint=True)
    # the same numbers as r4 / r5 given as integers, lists and numpy integers: a pure function of the argument VALUES
    R["r15"] = dict(R["r4"], domain=(100, 112), levels=[np.int64(2), np.int64(8)], modes=[6, 8], halo=0, meas_pt=(30, 48), srf_bg_conc=1.5)
    R["r16"] = dict(R["r5"], domain=[320, 256], levels=np.array([10, 3, 17], dtype=np.int32), modes=(np.int64(40), np.int64(40)), halo=40, meas_pt=(160, 128))
    # the same source values in another memory layout (a transposed raster, a Fortran-ordered array, a strided view into a bigger array)
    R["r17"] = dict(R["r0"], srf_flx=np.asfortranarray(R["r0"]["srf_flx"]))
    R["r18"] = dict(R["r8"], srf_flx=np.ascontiguousarray(R["r8"]["srf_flx"].T).T)
    big = np.full((28, 21), np.nan)
    big[::2, 1::2] = R["r4"]["srf_flx"]
    R["r19"] = dict(R["r4"], srf_flx=big[::2, 1::2])
    # the same numbers as they come out of binary files: big-endian float64 arrays (scipy.io.netcdf_file, numpy.fromfile('>f8'), a
    # classic-format NetCDF read without conversion), read-only arrays (a memory-mapped or broadcast input), a big-endian source raster
    R["r33"] = dict(R["r0"], profiles=tuple(np.asarray(a).astype(">f8") for a in R["r0"]["profiles"]))

    def _ro(a):
        a = np.array(a, copy=True)
        a.flags.writeable = False
        return a

    R["r34"] = dict(R["r8"], z=_ro(R["r8"]["z"]), profiles=tuple(_ro(a) for a in R["r8"]["profiles"]), srf_flx=_ro(R["r8"]["srf_flx"]))
    R["r35"] = dict(R["r4"], srf_flx=R["r4"]["srf_flx"].astype(">f8"))
    # the five profiles as five separate arrays (copies: read from a file, rows of a table) where the closure hands some of them out as
    # one and the same object - and the other way round: one array object used for Kx and Ky where the values are equal
    R["r36"] = dict(R["r0"], profiles=tuple(np.array(a, copy=True) for a in R["r0"]["profiles"]))
    R["r37"] = dict(R["r8"], profiles=tuple(np.array(a, copy=True) for a in R["r8"]["profiles"]))
    _k8 = np.array(R["r8"]["profiles"][2], copy=True)
    R["r38"] = dict(R["r8"], profiles=(R["r8"]["profiles"][0], R["r8"]["profiles"][1], _k8, _k8, _k8)) if all(np.array_equal(R["r8"]["profiles"][2], R["r8"]["profiles"][j]) for j in (3, 4)) else dict(R["r8"])
    # float64 / int64 ndarrays where tuples are customary: reused by every repeat of the request in a history (a user loop keeps its arrays)
    R["r20"] = dict(R["r14"], meas_pt=np.array([30.0, 48.0]), domain=np.array([100.0, 112.0]), modes=np.array([6, 8]), levels=np.array([2, 8]))
    R["r21"] = dict(R["r2"], meas_pt=np.array([120.0, 80.0]), domain=np.array([240.0, 160.0]))
    # larger, non-power-of-two padded grids (threaded FFT libraries split the work differently there)
    R["r22"] = dict(srf_flx=rng.normal(size=(100, 100)), z=z, profiles=p, domain=(1000.0, 800.0), levels=8, modes=(100, 100), halo=0.0, precision="double")
    R["r23"] = dict(srf_flx=rng.normal(size=(100, 144)), z=zc, profiles=(2.0 * one, 1.0 * one, 0.8 * one, 0.5 * one, 0.6 * one),
                    domain=(1440.0, 900.0), levels=[4, 8], modes=(144, 100), halo=0.0, precision="double", analytic=True, srf_bg_conc=0.4)
    R["r24"] = dict(R["r23"], analytic=False)
    # a fine grid under a tall tower (cell 1 m, tower 10 m, default halo: the highest retained components decay by about e^-15 up to the tower height): the solution
    # itself carries rounding noise there, but it is the SAME deterministic noise in every repeat, and single precision still only
    # rounds the stored spectra
    z25, p25 = col(16, 10.0, (5.0, 1.0), ustar=0.4, mol=1e9, closure="MOST")
    R["r25"] = dict(srf_flx=np.zeros((48, 64)), z=z25, profiles=p25, domain=(64.0, 48.0), levels=16, modes=(96, 80), halo=None, precision="double",
                    footprint=True, meas_pt=(44.0, 24.0))
    R["r26"] = dict(R["r25"], precision="single")
    R["r27"] = dict(R["r25"], levels=[16, 4, 10])      # the same with several output levels in one call
    R["r28"] = dict(R["r27"], precision="single")
    # a large multi-level output: 40 levels x 256 x 256 retained components (the padded grid of a 64 x 64 window under a wide halo), in
    # both precisions - far above the sizes at which an implementation might switch to a leaner way of combining / transforming
    z29, p29 = col(40, 8.0, (4.0, 1.5), ustar=0.4, mol=-80.0, closure="MOST")
    R["r29"] = dict(srf_flx=np.zeros((64, 64)), z=z29, profiles=p29, domain=(256.0, 256.0), levels=list(range(1, 41)), modes=(256, 256), halo=384.0,
                    precision="double", footprint=True, meas_pt=(128.0, 128.0))
    R["r30"] = dict(R["r29"], precision="single")
    R["r31"] = dict(R["r29"], footprint=False, srf_flx=rng.normal(size=(64, 64)), srf_bg_conc=2.0)
    R["r32"] = dict(R["r31"], precision="single")
    # one-argument-at-a-time family: a small base request and, for every argument of the solver signature, a request that
    # differs from the base in that argument only (state memoised on any proper subset of the arguments mixes one of these pairs)
    nzv = 7
    zv = np.linspace(0.25, 5.0, nzv)
    onev = np.ones(nzv)
    pv = (2.5 * onev, -1.2 * onev, 0.9 * onev, 0.6 * onev, 0.7 * onev)
    qv = rng.normal(size=(10, 12))
    B = dict(srf_flx=qv, z=zv, profiles=pv, domain=(96.0, 110.0), levels=[2, 5], modes=(8, 8), halo=20.0, precision="double",
             meas_pt=(32.0, 44.0), srf_bg_conc=0.7)
    R["v0"] = B
    R["v_flxvals"] = dict(B, srf_flx=rng.normal(size=(10, 12)))
    R["v_flxshape"] = dict(B, srf_flx=qv.reshape(12, 10).copy())
    R["v_z"] = dict(B, z=zv * 1.5)
    R["v_u"] = dict(B, profiles=(pv[0] * 1.4,) + pv[1:])
    R["v_v"] = dict(B, profiles=(pv[0], pv[1] * -0.5) + pv[2:])
    R["v_kx"] = dict(B, profiles=pv[:2] + (pv[2] * 2.0,) + pv[3:])
    R["v_ky"] = dict(B, profiles=pv[:3] + (pv[3] * 2.0, pv[4]))
    R["v_kz"] = dict(B, profiles=pv[:4] + (pv[4] * 0.6,))
    R["v_domain_scaled"] = dict(B, domain=(115.2, 132.0))  # same cell, pad and mode counts, other cell size
    R["v_domain_swapped"] = dict(B, domain=(110.0, 96.0))
    R["v_levels_order"] = dict(B, levels=[5, 2])
    R["v_levels_other"] = dict(B, levels=[3, 5])
    R["v_levels_scalar"] = dict(B, levels=5)
    R["v_modes"] = dict(B, modes=(6, 8))
    R["v_halo"] = dict(B, halo=30.0)
    R["v_halo_none"] = dict(B, halo=None)
    R["v_measpt"] = dict(B, meas_pt=(40.0, 33.0))
    R["v_bg"] = dict(B, srf_bg_conc=0.0)
    R["v_analytic"] = dict(B, analytic=True)
    R["v_footprint"] = dict(B, footprint=True)
    R["v_single"] = dict(B, precision="single")
    # single-precision twins of some variants (single differs from double by storage rounding only, whatever the other options)
    for nm_ in ("v_analytic", "v_footprint", "v_levels_order", "v_bg", "v_halo_none", "v_modes"):
        R[nm_ + "_single"] = dict(R[nm_], precision="single")
    return R


PAIRS = {"r1": "r0", "r3": "r2", "r9": "r8", "v_single": "v0", "r26": "r25", "r28": "r27", "r30": "r29", "r32": "r31"}  # single -> its double counterpart
TWINS = {"r11": "r2", "r12": "r5", "r13": "r0", "r14": "r4", "r10": "r0", "r15": "r4", "r16": "r5", "r17": "r0", "r18": "r8", "r19": "r4", "r20": "r14", "r21": "r2",
         "r33": "r0", "r34": "r8", "r35": "r4", "r36": "r0", "r37": "r8", "r38": "r8"}
VARIANTS = ["v_flxvals", "v_flxshape", "v_z", "v_u", "v_v", "v_kx", "v_ky", "v_kz", "v_domain_scaled", "v_domain_swapped", "v_levels_order",
            "v_levels_other", "v_levels_scalar", "v_modes", "v_halo", "v_halo_none", "v_measpt", "v_bg", "v_analytic", "v_footprint", "v_single"]
TWINS.update({v: "v0" for v in VARIANTS})
for _nm in ("v_analytic", "v_footprint", "v_levels_order", "v_bg", "v_halo_none", "v_modes"):
    PAIRS[_nm + "_single"] = _nm
    VARIANTS.append(_nm + "_single")
    TWINS[_nm + "_single"] = _nm
SAME_VALUES = {"r15": "r4", "r16": "r5", "r17": "r0", "r18": "r8", "r19": "r4", "r20": "r14", "r21": "r2", "r33": "r0", "r34": "r8", "r35": "r4", "r36": "r0", "r37": "r8", "r38": "r8"}  # integer / list / numpy-integer spelling of the same argument values  # same geometry, other mode / other physics


def do_solve(req):
    from bldfm.solver import steady_state_transport_solver as S
    import numpy as np

    kw = dict(req)
    args = [kw.pop(k) for k in ("srf_flx", "z", "profiles", "domain", "levels")]
    g, c, f = S(*args, **kw)
    return np.asarray(c), np.asarray(f)


FRESH = (
    "import sys, numpy as np\n"
    "from vlib import boot; boot.boot()\n"
    "from checks import c12_purity as C\n"
    "if len(sys.argv) > 3:\n"
    "    from bldfm import config as rc; rc.NUM_THREADS = int(sys.argv[3])\n"
    "c, f = C.do_solve(C.requests()[sys.argv[1]])\n"
    "np.savez(sys.argv[2], c=c, f=f)\n"
)
# a second model table for a few requests: another process environment (thread-count variables of the numerical libraries set,
# three solver threads, the other kernel world) - "equal to rounding across thread settings and processes"
ENVB = ("r0", "r4", "r8", "r11", "r22", "v0")


def need(nm):
    """Tabulate the pure function lazily: request `nm` alone in a fresh subprocess, one thread.

    The table is shared by the shards of one run (directory next to the shard directories, one lock per request),
    so every request is solved in exactly one fresh process per run.
    """
    import fcntl
    import subprocess
    import sys

    import numpy as np

    if nm in _table:
        return
    envb = nm.endswith("@envB")
    if "_dir" not in _table:
        _table["_dir"] = os.path.abspath(os.path.join("..", "c12_fresh_table"))   # fixed at first use: cases change the working directory
    d = _table["_dir"]
    os.makedirs(d, exist_ok=True)
    out = os.path.join(d, nm + ".npz")
    wd = os.path.join(d, "cwd_" + nm)
    with open(os.path.join(d, nm + ".lock"), "w") as lk:
        fcntl.flock(lk, fcntl.LOCK_EX)
        if not os.path.exists(out):
            os.makedirs(wd, exist_ok=True)
            tmp = out + f".{os.getpid()}.tmp.npz"
            if envb:
                e_ = dict(os.environ, NUMBA_NUM_THREADS="5", OMP_NUM_THREADS="2", MKL_NUM_THREADS="3", OPENBLAS_NUM_THREADS="3")
                w_ = "S" if os.environ.get("VERIF_KERNEL_WORLD", "S") == "P" else "P"
                e_["VERIF_KERNEL_WORLD"] = w_
                e_["NUMBA_CACHE_DIR"] = os.environ["NUMBA_CACHE_DIR"][:-1] + w_
                r = subprocess.run([sys.executable, "-c", FRESH, nm[:-5], tmp, "3"], capture_output=True, text=True, timeout=900, cwd=wd, env=e_)
            else:
                r = subprocess.run([sys.executable, "-c", FRESH, nm, tmp], capture_output=True, text=True, timeout=900, cwd=wd)
            if r.returncode != 0 or not os.path.exists(tmp):
                err = [l for l in r.stderr.splitlines() if "Error" in l and "thread" not in l]
                if nm.split("@")[0] in SAME_VALUES and any("Error" in l for l in err):
                    # a spelling the solver rejects in a fresh process: recorded as such (the in-process call must then be rejected too)
                    np.savez(tmp, c=np.zeros(0), f=np.zeros(0), raised=np.array(str(err[-1:])))
                else:
                    raise RuntimeError(f"fresh-process solve of {nm} failed: {err[-3:]}")
            os.replace(tmp, out)
            _table["_fresh_runs"] = _table.get("_fresh_runs", 0) + 1
    with np.load(out) as z:
        _table[nm] = (z["c"], z["f"])
        if "raised" in z.files:
            _table[nm + "!raised"] = str(z["raised"])
    wis = os.path.join(wd, "fftw_wisdom.pkl")
    if "_foreign_wisdom" not in _table and os.path.exists(wis):
        _table["_foreign_wisdom"] = open(wis, "rb").read()


def state_tuple():
    import numba
    import pyfftw
    import bldfm.fft_manager as FM
    import bldfm.solver as SV
    from bldfm import config as rc

    comp = ()
    try:
        cells = SV.ivp_solver.__closure__ or ()
        for c in cells:
            if isinstance(c.cell_contents, dict):
                comp = tuple(sorted(c.cell_contents))
    except Exception:
        pass
    m = FM._fft_manager
    return (rc.NUM_THREADS, None if m is None else m.num_threads, pyfftw.config.NUM_THREADS, numba.get_num_threads(), comp)


def run_case(case):
    import pickle
    import warnings

    import numpy as np
    from bldfm import config as rc
    import bldfm.fft_manager as FM
    from vlib import gen

    rng = gen.rng_for(case["seed"], "C12", case["idx"])
    R = requests()
    names = list(R)
    if case["idx"] % 2:
        # one-argument-at-a-time histories: the base and 4-7 of its variants plus a few unrelated requests
        pool = ["v0"] + [str(x) for x in rng.choice(VARIANTS, size=int(rng.integers(4, 8)), replace=False)]
        pool += [str(x) for x in rng.choice([n for n in names if not n.startswith("v")], size=2, replace=False)]
    else:
        pool = [str(x) for x in rng.choice(names, size=int(rng.integers(6, 11)), replace=False)]
    if case["idx"] % 8 == 0:
        pool.append("r30" if case["idx"] % 16 == 0 else "r32")   # the large multi-level pair is part of every eighth history
    for s_, d_ in list(PAIRS.items()) + list(TWINS.items()):  # keep precision pairs and mode twins together
        if s_ in pool and d_ not in pool:
            pool.append(d_)
    for nm_ in pool + [SAME_VALUES[x] for x in pool if x in SAME_VALUES] + [x + "@envB" for x in pool if x in ENVB]:
        need(nm_)
    viol, sigs = [], set()
    counters = {"solves": 0, "bitwise_repeats": 0, "cross_thread_comparisons": 0, "fresh_table_comparisons": 0, "precision_pair_comparisons": 0,
                "thread_changes": 0, "fft_resets": 0, "wisdom_faults": 0, "alloc_noise": 0, "fresh_process_solves": _table.pop("_fresh_runs", 0)}
    resid = {"vs_fresh_double": 0.0, "vs_fresh_single": 0.0, "across_threads_double": 0.0, "single_vs_double": 0.0}
    seen = {}      # (request, threads) -> first result in this process
    anyres = {}    # request -> {threads: result}
    states, trans = set(), set()
    hist = []
    noise = []
    last = None
    dirty = True
    warnings.simplefilter("ignore")
    rc.NUM_THREADS = 1
    wis = "fftw_wisdom.pkl"
    pending = []
    LAYOUTS = ("r17", "r18", "r19", "r20", "r21", "r33", "r34", "r35", "r36", "r37", "r38")
    if not any(x in pool for x in LAYOUTS):
        pool.append(str(rng.choice(["r17", "r18", "r33", "r34", "r35", "r36", "r37", "r38"])))
        pool.append(SAME_VALUES[pool[-1]])
        for nm_ in pool[-2:]:
            need(nm_)
    # adjacency stage (pushed once, two thirds into the history): ordered pairs (A, B) of the pool solved back to back with nothing in
    # between, pairs that differ in precision / analytic / footprint three times as likely - state left by A and picked up by B shows
    # in B, which is compared like every other solve
    plan = [(a_, b_) for a_ in pool for b_ in pool if a_ != b_]
    wts = np.array([3.0 if any(R[a_].get(k_, d_) != R[b_].get(k_, d_) for k_, d_ in (("precision", "single"), ("analytic", False), ("footprint", False)))
                    else 1.0 for a_, b_ in plan])
    pick_ = rng.choice(len(plan), size=min(14, len(plan)), replace=False, p=wts / wts.sum())
    adjacency = [plan[i_] for i_ in pick_]
    step = 0
    _home = [os.getcwd()]
    while step < 60 or pending:
        step += 1
        if step == 40 and adjacency:
            for a_, b_ in adjacency:
                pending += [("solve", a_), ("solve", b_)]
            counters["adjacent_ordered_pairs"] = len(adjacency)
            adjacency = []
        forced = None
        if pending:
            op, forced = pending.pop(0)
        else:
            op = str(rng.choice(["solve", "solve", "solve", "threads", "reset", "manager", "wisdom", "noise", "burst", "expire", "chdir"]))
        if op == "burst":
            # the same request several times in a row with allocation noise in between (temporaries land on other addresses / alignments)
            cand = [x for x in pool if x in LAYOUTS] or pool
            nm_b = str(rng.choice(cand))
            for _ in range(5):
                pending += [("solve", nm_b), ("noise", None)]
            counters["bursts"] = counters.get("bursts", 0) + 1
            hist.append(f"burst:{nm_b}")
            continue
        if op == "threads":
            rc.NUM_THREADS = int(rng.integers(1, 9))
            counters["thread_changes"] += 1
            hist.append(f"T{rc.NUM_THREADS}")
            dirty = True
        elif op == "reset":
            FM.reset_fft_manager()
            counters["fft_resets"] += 1
            hist.append("reset")
            dirty = True
        elif op == "expire":
            # the transform plans kept by the FFT layer are dropped, as after a pause longer than its keep-alive time (public method)
            try:
                FM.get_fft_manager().clear_cache()
            except Exception:
                pass
            counters["plan_cache_expiries"] = counters.get("plan_cache_expiries", 0) + 1
            hist.append("expire")
            dirty = True
        elif op == "chdir":
            # the working directory changes between solves (the FFT layer keeps its wisdom file relative to it): another, empty directory
            # or back to the first one
            here = os.getcwd()
            sub = os.path.join(_home[0], "elsewhere")
            os.makedirs(sub, exist_ok=True)
            os.chdir(_home[0] if here != _home[0] else sub)
            counters["working_directory_changes"] = counters.get("working_directory_changes", 0) + 1
            hist.append("chdir")
            dirty = True
        elif op == "manager":
            k = int(rng.integers(1, 9))
            FM.get_fft_manager(num_threads=k)
            hist.append(f"mgr{k}")
            dirty = True
        elif op == "wisdom":
            kind = str(rng.choice(["drop", "truncated", "garbage", "foreign", "empty"]))
            if kind == "drop":
                if os.path.exists(wis):
                    os.unlink(wis)
            elif kind == "truncated":
                open(wis, "wb").write(pickle.dumps((b"x" * 50, b"", b""))[:20])
            elif kind == "garbage":
                open(wis, "wb").write(bytes(rng.integers(0, 256, size=300, dtype="uint8")))
            elif kind == "empty":
                open(wis, "wb").write(b"")
            else:
                open(wis, "wb").write(_table.get("_foreign_wisdom", pickle.dumps((b"", b"", b""))))
            FM.reset_fft_manager()
            counters["wisdom_faults"] += 1
            hist.append(f"wisdom:{kind}")
            dirty = True
        elif op == "noise":
            noise.append(np.empty(int(rng.integers(1, 4097)) * 8 + int(rng.integers(0, 8)), dtype=np.uint8))
            if len(noise) > 6:
                noise.pop(int(rng.integers(len(noise))))
            counters["alloc_noise"] += 1
            hist.append("noise")
        else:
            nm = forced or str(rng.choice(pool))
            st = state_tuple()
            try:
                c, f = do_solve(R[nm])
            except Exception as e:  # noqa
                if nm + "!raised" in _table:
                    counters["rejected_in_fresh_process_and_here"] = counters.get("rejected_in_fresh_process_and_here", 0) + 1
                else:
                    viol.append({"what": "solve_raises_after_history", "request": nm, "exc": repr(e)[:200], "history": hist[-12:], "state": st})
                hist.append(nm + "!")
                continue
            counters["solves"] += 1
            if nm + "!raised" in _table:
                # the very same call is rejected in a fresh process and answered here: what a call does depends on what ran before it
                fin_ = bool(np.all(np.isfinite(c)) and np.all(np.isfinite(f)))
                viol.append({"what": "call_rejected_in_a_fresh_process_is_answered_after_other_solves", "request": nm, "answer_finite": fin_,
                             "fresh_process": _table[nm + "!raised"][:200], "counterpart": SAME_VALUES.get(nm), "history": hist[-12:], "state": st})
                hist.append(nm)
                continue
            # what a solve hands back belongs to the caller: keep private copies for the comparisons and overwrite the returned arrays
            # (a memo that hands out its own arrays would return the overwritten values next time)
            c_ret, f_ret = c, f
            c, f = np.array(c_ret, copy=True), np.array(f_ret, copy=True)
            for a_ in (c_ret, f_ret):
                try:
                    if a_.flags.writeable:
                        a_[...] = np.nan
                        counters["result_arrays_poisoned_after_use"] = counters.get("result_arrays_poisoned_after_use", 0) + 1
                except Exception:
                    pass
            k = rc.NUM_THREADS
            if k > 1 and not R[nm].get("analytic"):
                # was the multi-thread kernel really a threaded one?  (numba.threading_layer() raises until a threaded kernel has run)
                try:
                    import numba

                    numba.threading_layer()
                    counters["threaded_solves_with_live_thread_pool"] = counters.get("threaded_solves_with_live_thread_pool", 0) + 1
                except Exception:
                    counters["threaded_solves_WITHOUT_thread_pool"] = counters.get("threaded_solves_WITHOUT_thread_pool", 0) + 1
            prec = R[nm]["precision"]
            states.add(st)
            trans.add((st, nm))
            if dirty or last != nm:
                sigs.add(f"{st}->{nm}")
            ctx = dict(request=nm, threads=k, history=hist[-12:], state=st)
            # (1) bitwise repeat, same thread setting, same process
            if (nm, k) in seen:
                c0, f0 = seen[(nm, k)]
                counters["bitwise_repeats"] += 1
                if not (np.array_equal(c, c0) and np.array_equal(f, f0)):
                    viol.append(dict(what="repeat_not_bit_identical", maxdiff=float(max(np.max(np.abs(c - c0)), np.max(np.abs(f - f0)))), **ctx))
            else:
                seen[(nm, k)] = (c, f)
            # (2a) across thread settings in this process
            tolr = 1e-12 if prec == "double" else 1e-6
            for k2, (c2, f2) in anyres.get(nm, {}).items():
                if k2 != k:
                    counters["cross_thread_comparisons"] += 1
                    e = max(np.max(np.abs(c - c2)) / (np.max(np.abs(c2)) or 1), np.max(np.abs(f - f2)) / (np.max(np.abs(f2)) or 1))
                    if prec == "double":
                        resid["across_threads_double"] = max(resid["across_threads_double"], float(e))
                    if not e <= tolr:
                        viol.append(dict(what="result_depends_on_thread_setting", other_threads=k2, rel=float(e), **ctx))
            anyres.setdefault(nm, {})[k] = (c, f)
            # (2b) against the fresh-process table
            ct, ft = _table[nm]
            counters["fresh_table_comparisons"] += 1
            if c.shape != ct.shape:
                viol.append(dict(what="result_depends_on_history", shapes=(c.shape, ct.shape), **ctx))
            else:
                e = max(np.max(np.abs(c - ct)) / (np.max(np.abs(ct)) or 1), np.max(np.abs(f - ft)) / (np.max(np.abs(ft)) or 1))
                key = "vs_fresh_double" if prec == "double" else "vs_fresh_single"
                resid[key] = max(resid[key], float(e))
                if not e <= tolr:
                    viol.append(dict(what="result_depends_on_history", rel=float(e), **ctx))
            # (2b') the same request solved in a fresh process with another environment
            if nm + "@envB" in _table and c.shape == _table[nm + "@envB"][0].shape:
                cb_, fb_ = _table[nm + "@envB"]
                e = max(np.max(np.abs(c - cb_)) / (np.max(np.abs(cb_)) or 1), np.max(np.abs(f - fb_)) / (np.max(np.abs(fb_)) or 1))
                counters["other_environment_comparisons"] = counters.get("other_environment_comparisons", 0) + 1
                resid["vs_other_process_environment"] = max(resid.get("vs_other_process_environment", 0.0), float(e))
                if not e <= tolr:
                    viol.append(dict(what="result_depends_on_process_environment", rel=float(e),
                                     environment="NUMBA_NUM_THREADS=5 OMP_NUM_THREADS=2, NUM_THREADS=3, other kernel world", **ctx))
            # (2c) another spelling of the same argument values
            if nm in SAME_VALUES:
                cv, fv = _table[SAME_VALUES[nm]]
                e = max(np.max(np.abs(c - cv)) / (np.max(np.abs(cv)) or 1), np.max(np.abs(f - fv)) / (np.max(np.abs(fv)) or 1)) if c.shape == cv.shape else float("inf")
                counters["same_value_spellings"] = counters.get("same_value_spellings", 0) + 1
                if not e <= tolr:
                    viol.append(dict(what="result_depends_on_the_type_of_an_argument", counterpart=SAME_VALUES[nm], rel=float(e), **ctx))
            # (3) single vs double
            if nm in PAIRS:
                cd, fd = _table[PAIRS[nm]]
                counters["precision_pair_comparisons"] += 1
                e = max(np.max(np.abs(c - cd)) / (np.max(np.abs(cd)) or 1), np.max(np.abs(f - fd)) / (np.max(np.abs(fd)) or 1))
                resid["single_vs_double"] = max(resid["single_vs_double"], float(e))
                if not e <= 1e-5:
                    viol.append(dict(what="single_precision_differs_beyond_storage_rounding", rel=float(e), **ctx))
            hist.append(nm)
            last = nm
            dirty = False
    rc.NUM_THREADS = 1
    b = {f"threads_seen:{sorted({s[0] for s in states})}": 1}
    counters["distinct_states"] = len(states)
    counters["distinct_transitions"] = len(trans)
    os.chdir(_home[0])
    if case["idx"] % 4 == 1:
        # an interleaving in time rather than in sequence: four Python threads issue solves of the pool concurrently (a thread pool
        # over towers); every one of them must come back as the fresh-process table has it
        import threading

        rc.NUM_THREADS = int(rng.choice([1, 1, 2, 3]))
        cand = [x for x in pool if x + "!raised" not in _table and x not in ("r29", "r30", "r31", "r32")]
        plans = [[str(x) for x in rng.choice(cand, size=6)] for _ in range(4)]
        got_, errs_ = [], []

        def _thr(plan_):
            for nm_ in plan_:
                try:
                    c_, f_ = do_solve(R[nm_])
                    got_.append((nm_, np.array(c_, copy=True), np.array(f_, copy=True)))
                except Exception as e_:  # noqa
                    errs_.append((nm_, repr(e_)[:200]))

        ths_ = [threading.Thread(target=_thr, args=(pl_,)) for pl_ in plans]
        [t_.start() for t_ in ths_]
        [t_.join() for t_ in ths_]
        counters["solves_issued_concurrently_from_python_threads"] = len(got_) + len(errs_)
        for nm_, e_ in errs_:
            viol.append({"what": "solve_raises_when_issued_concurrently", "request": nm_, "exc": e_, "threads": rc.NUM_THREADS})
        for nm_, c_, f_ in got_:
            ct_, ft_ = _table[nm_]
            tol_ = 1e-12 if R[nm_]["precision"] == "double" else 1e-6
            e_ = float("inf") if c_.shape != ct_.shape else max(np.max(np.abs(c_ - ct_)) / (np.max(np.abs(ct_)) or 1), np.max(np.abs(f_ - ft_)) / (np.max(np.abs(ft_)) or 1))
            resid["concurrent_vs_fresh"] = max(resid.get("concurrent_vs_fresh", 0.0), float(e_) if np.isfinite(e_) else 1e300)
            if not e_ <= tol_:
                viol.append({"what": "result_depends_on_solves_running_at_the_same_time", "request": nm_, "rel": float(e_), "numerical_threads": rc.NUM_THREADS,
                             "concurrent_plans": plans})
        rc.NUM_THREADS = 1
    return {"evals": counters["solves"], "nontrivial": bool(sigs), "sig": sorted(sigs), "buckets": b, "resid": resid, "counters": counters,
            "violations": viol, "sample": {"history": hist, "states_seen": [list(map(str, s)) for s in sorted(states, key=str)][:6]}}


def finalize(results, tier):
    st = sum(r.get("counters", {}).get("distinct_states", 0) for r in results)
    tr = sum(r.get("counters", {}).get("distinct_transitions", 0) for r in results)
    live = sum(r.get("counters", {}).get("threaded_solves_with_live_thread_pool", 0) for r in results)
    inc = []
    if not live:
        inc.append("no solve with NUM_THREADS > 1 ran a really multi-threaded kernel (numba's thread pool never started): the thread-setting "
                   "clause was not exercised")
    return {"coverage": {"states": st, "transitions": tr, "threaded_solves_with_live_thread_pool": live}, "inconclusive": inc}
