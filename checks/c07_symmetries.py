"""C07 - the solution respects the PDE's symmetries: reflection, axis swap, similarity.

Relation monitor over pairs of recorded calls on the real solver.
"""

ID = "C07"
LEVEL = "exploration"
RULE = (
    "seeded random set-ups with Kx != Ky != Kz, oblique winds, non-square domains and grids, inside the conditioning guard; per case: "
    "mirror in x and in y (periodic reflection of the source / tower, that wind component negated; compared in Fourier space off the "
    "Nyquist and cut-off wavenumbers, halo=0; and exactly, by plain flip, under every halo class on odd grids), transpose (source, winds, diffusivities, extents, mode counts, tower swapped; any halo), "
    "length scale s in [1e-3,1e3] on domain, heights, halo, tower and all K, velocity scale on winds and all K; footprint and dispersion "
    "mode.  non-trivial = wind oblique (both components non-zero) and Kx != Ky; distinct = distinct (idx, relation)"
)
ASSUMPTIONS = [
    "conditioning-aware tolerance max(1e-9, 5000 eps e^G) (double) / 5e-5 (single)",
    "length scales that are not powers of two are only applied where the pad width int(halo/dx) is not on a knife edge",
]
MIN_NONTRIVIAL = {"quick": 300, "thorough": 20000}
TIMEOUT = {"quick": 900, "thorough": 7000}


def cases(tier, seed):
    n = 192 if tier == "quick" else 48000
    return [{"seed": seed, "idx": i} for i in range(n)]


def run_case(case):
    import numpy as np
    from vlib import gen, solve

    rng = gen.rng_for(case["seed"], "C07", case["idx"])
    viol, resid, sigs = [], {}, []
    counters = {"solver_calls": 0}
    prec = "double" if rng.random() < 0.75 else "single"

    def run(S_, q, levels, **kw):
        counters["solver_calls"] += 1
        g, c, f = solve.solve(S_, q, levels, precision=prec, **kw)
        n = solve.nlev(levels)
        return g, solve.as3d(c, n), solve.as3d(f, n)

    def record(what, e, tol, **extra):
        key = f"{what}_{prec}"
        resid[key] = max(resid.get(key, 0.0), e)
        if not e <= tol:
            viol.append(dict(what=what, rel=e, tol=tol, precision=prec, **extra))

    # ------------------------------------------------------------------ mirrors (halo = 0)
    St, _ = gen.draw_setup(rng, halo_classes=("zero",), profile_kinds=("synthetic", "closure", "constant"), even=True)
    if St is None:
        return {"evals": 0, "nontrivial": False, "skipped": "no draw inside the conditioning guard"}
    nx, ny, dx, dy = St["nx"], St["ny"], St["dx"], St["dy"]
    u, v, Kx, Ky, Kz = St["profiles"]
    nz = len(St["z"])
    tol = solve.tol(prec, St["G"], cr=St["cr"])
    desc = gen.describe(St)
    levels, lkind = solve.pick_levels(rng, nz, str(rng.choice(["top", "scalar", "few", "shuffled"])))
    oblique = bool(abs(u[-1]) > 1e-6 and abs(v[-1]) > 1e-6 and not np.allclose(Kx, Ky))
    fp = bool(rng.random() < 0.5)
    q0, skind = gen.make_source(rng, ny, nx)
    im, jm = int(rng.integers(nx)), int(rng.integers(ny))
    mp = (im * dx, jm * dy) if fp else (0.0, 0.0)
    bg = 0.0 if fp else float(rng.choice([0.0, 2.5]))
    _, c0, f0 = run(St, q0, levels, footprint=fp, meas_pt=mp, srf_bg_conc=bg)
    ac, af = solve.amp_scales(St, q0, footprint=fp)
    floorF = {"conc": ac, "flx": af}  # |fft2 coefficient| >= the field amplitude for any single-mode content
    mask = solve.spectrum_mask(ny, nx, St["modes"][1], St["modes"][0])
    for axis, nm in ((1, "x"), (0, "y")):
        Sm = dict(St)
        Sm["profiles"] = (-u, v, Kx, Ky, Kz) if nm == "x" else (u, -v, Kx, Ky, Kz)
        qm = np.roll(np.flip(q0, axis=axis), 1, axis=axis)
        mpm = (((-im) % nx) * dx, mp[1]) if nm == "x" else (mp[0], ((-jm) % ny) * dy)
        if case["idx"] % 2 and fp:
            # the mirror image where it falls: west / south of the window origin (negative coordinate) - on the periodic domain the same point
            mpm = (-im * dx, mp[1]) if nm == "x" else (mp[0], -jm * dy)
        if not fp:
            mpm = (0.0, 0.0)
        _, c1, f1 = run(Sm, qm, levels, footprint=fp, meas_pt=mpm, srf_bg_conc=bg)
        for fld, a, b_ in (("conc", c1, c0), ("flx", f1, f0)):
            exp = np.roll(np.flip(b_, axis=axis + 1), 1, axis=axis + 1)
            A, E = np.fft.fft2(a), np.fft.fft2(exp)
            scale = max(float(np.max(np.abs(E))), floorF[fld], 1e-300)
            e = float(np.max(np.abs((A - E)[:, mask]))) / scale
            record(f"mirror_{nm}", e, tol, field=fld, footprint=fp, levels=levels, setup=desc)
    if oblique:
        sigs.append(f"{case['idx']}|mirror")

    # ------------------------------------------------------------------ mirrors under a halo
    # odd grid sizes (the padded size stays odd, every mode is retained through an over-request): there is no Nyquist wavenumber,
    # so flipping source / tower and negating that wind component must flip the returned (cropped) fields exactly
    Sm = None
    for _try in range(8):
        Sm, _ = gen.draw_setup(rng, halo_classes=("none", "comm", "comm_x", "incomm", "sub"), mode_classes=("over",), even=False, nmax=17)
        if Sm is not None and Sm["nx"] % 2 == 1 and Sm["ny"] % 2 == 1:
            break
    if Sm is not None and Sm["nx"] % 2 == 1 and Sm["ny"] % 2 == 1:
        nxm, nym, dxm, dym = Sm["nx"], Sm["ny"], Sm["dx"], Sm["dy"]
        um, vm, Kxm, Kym, Kzm = Sm["profiles"]
        tolm = solve.tol(prec, Sm["G"], cr=Sm["cr"])
        lvm, _k = solve.pick_levels(rng, len(Sm["z"]), str(rng.choice(["top", "scalar"])))
        fpm = bool(rng.random() < 0.6)
        qm0, _k = gen.make_source(rng, nym, nxm)
        itm, jtm = int(rng.integers(nxm)), int(rng.integers(nym))
        mpm0 = (itm * dxm, jtm * dym) if fpm else (0.0, 0.0)
        _, cm0, fm0 = run(Sm, qm0, lvm, footprint=fpm, meas_pt=mpm0)
        acm, afm = solve.amp_scales(Sm, qm0, footprint=fpm)
        for axis, nm in ((1, "x"), (0, "y")):
            S2 = dict(Sm)
            S2["profiles"] = (-um, vm, Kxm, Kym, Kzm) if nm == "x" else (um, -vm, Kxm, Kym, Kzm)
            mp2 = (((nxm - 1 - itm) * dxm, mpm0[1]) if nm == "x" else (mpm0[0], (nym - 1 - jtm) * dym)) if fpm else (0.0, 0.0)
            _, c2, f2 = run(S2, np.flip(qm0, axis=axis).copy(), lvm, footprint=fpm, meas_pt=mp2)
            for fld, a_, b__, fl_ in (("conc", c2, cm0, acm), ("flx", f2, fm0, afm)):
                exp = np.flip(b__, axis=axis + 1)
                e = float(np.max(np.abs(a_ - exp))) / max(float(np.max(np.abs(exp))), fl_, 1e-300)
                record(f"mirror_{nm}_under_halo", e, tolm, field=fld, footprint=fpm, levels=lvm, setup=gen.describe(Sm), tower=(itm, jtm))
        sigs.append(f"{case['idx']}|mirror_halo")

    # ------------------------------------------------------------------ transpose, scalings (any halo)
    Sh, _ = gen.draw_setup(rng, even=bool(rng.random() < 0.85))
    if Sh is not None:
        nx, ny, dx, dy = Sh["nx"], Sh["ny"], Sh["dx"], Sh["dy"]
        u, v, Kx, Ky, Kz = Sh["profiles"]
        tolh = solve.tol(prec, Sh["G"], cr=Sh["cr"])
        dh = gen.describe(Sh)
        nzh = len(Sh["z"])
        lv, _k = solve.pick_levels(rng, nzh, str(rng.choice(["top", "scalar", "few", "shuffled"])))
        fp = bool(rng.random() < 0.5)
        q0, skind = gen.make_source(rng, ny, nx)
        im, jm = int(rng.integers(nx)), int(rng.integers(ny))
        mp = (im * dx, jm * dy) if (fp or rng.random() < 0.5) else (0.0, 0.0)
        # a background concentration: unchanged by a change of length unit, divided like every concentration by a change of velocity unit
        bgh = float(rng.choice([0.0, 0.0, 2.5, -40.0, 410.0]))
        g0, c0, f0 = run(Sh, q0, lv, footprint=fp, meas_pt=mp, srf_bg_conc=bgh)
        ssc, ssf = solve.surface_scales(Sh, q0, footprint=fp, meas_pt=mp, precision=prec)
        fl = {"conc": ssc, "flx": ssf}

        def rel(a_, b__, fld_):
            return solve.relerr(a_, b__, scale=max(float(np.max(np.abs(b__))), fl[fld_], 1e-300))

        obl = bool(abs(u[-1]) > 1e-6 and abs(v[-1]) > 1e-6 and not np.allclose(Kx, Ky))
        # transpose
        T = dict(Sh)
        T["profiles"] = (v, u, Ky, Kx, Kz)
        T["domain"] = (Sh["domain"][1], Sh["domain"][0])
        T["modes"] = (Sh["modes"][1], Sh["modes"][0])
        gT, cT, fT = run(T, q0.T.copy(), lv, footprint=fp, meas_pt=(mp[1], mp[0]), srf_bg_conc=bgh)
        for fld, a, b_ in (("conc", cT, c0), ("flx", fT, f0)):
            exp = np.swapaxes(b_, 1, 2)
            record("transpose", rel(a, exp, fld), tolh, field=fld, footprint=fp, levels=lv, setup=dh, meas_pt=mp)
        if obl:
            sigs.append(f"{case['idx']}|transpose")
        # length scale
        safe = Sh["halo_class"] in ("zero", "sub", "incommensurate") and Sh["halo"] is not None
        s = float(10 ** rng.uniform(-3, 3)) if (safe and rng.random() < 0.6) else float(2.0 ** int(rng.integers(-10, 11)))
        L = dict(Sh)
        L["z"] = Sh["z"] * s
        L["profiles"] = (u, v, Kx * s, Ky * s, Kz * s)
        L["domain"] = (Sh["domain"][0] * s, Sh["domain"][1] * s)
        L["halo"] = None if Sh["halo"] is None else Sh["halo"] * s
        gL, cL, fL = run(L, q0, lv, footprint=fp, meas_pt=(mp[0] * s, mp[1] * s), srf_bg_conc=bgh)
        record("length_scale", rel(cL, c0, "conc"), tolh, field="conc", s=s, footprint=fp, levels=lv, setup=dh)
        record("length_scale", rel(fL, f0, "flx"), tolh, field="flx", s=s, footprint=fp, levels=lv, setup=dh)
        for k_, (ga, gb) in enumerate(zip(gL, g0)):
            if solve.relerr(np.asarray(ga), np.asarray(gb) * s) > 1e-12:
                viol.append(dict(what="length_scale_grid", axis=k_, s=s, setup=dh))
        if s != 1.0:
            sigs.append(f"{case['idx']}|length")
        # velocity scale
        sv = float(10 ** rng.uniform(-2, 2))
        V = dict(Sh)
        V["profiles"] = (u * sv, v * sv, Kx * sv, Ky * sv, Kz * sv)
        gV, cV, fV = run(V, q0, lv, footprint=fp, meas_pt=mp, srf_bg_conc=bgh / sv)
        record("velocity_scale", rel(fV, f0, "flx"), tolh, field="flx", s=sv, footprint=fp, levels=lv, setup=dh)
        record("velocity_scale", rel(cV * sv, c0, "conc"), tolh, field="conc", s=sv, footprint=fp, levels=lv, setup=dh)
        sigs.append(f"{case['idx']}|velocity")
    b = {f"prec:{prec}": 1, f"mirror_modes:{St['mode_class']}": 1, "oblique" if oblique else "axis_aligned_or_isotropic": 1,
         f"profiles:{St['pdesc'].get('closure', St['pdesc']['kind'])}": 1, gen.gbucket(St["G"]): 1}
    if Sh is not None:
        b[f"halo:{Sh['halo_class']}"] = 1
        b["mode:footprint" if fp else "mode:dispersion"] = 1
        b["scalings_with_background" if bgh else "scalings_without_background"] = 1
    return {"evals": counters["solver_calls"], "nontrivial": bool(sigs), "sig": sigs, "buckets": b, "resid": resid, "counters": counters,
            "violations": viol, "sample": {"mirror_setup": desc, "levels": levels, "precision": prec}}
