"""C06 - horizontal translation equivariance of sources, towers and centring.

Relation monitor over groups of recorded calls on the real solver.
"""

ID = "C06"
LEVEL = "exploration"
RULE = (
    "seeded random set-ups (dx != dy, non-square, even and odd sizes, all profile kinds, full/truncated/over-requested modes) inside the conditioning guard; "
    "integer shifts incl. 0, +-1, n-1 and wrap-around, independent in x and y; per case: (a) S(roll(q0,s)) == roll(S(q0),s) [halo=0], "
    "(b) F(m+s) == roll(F(m),s) [halo=0], (c) F_m == point reflection about m of the response to a unit source at m [halo=0], "
    "(d) dispersion mode with an on-grid non-zero measurement point on even grids re-centres the output: out[j,i] == field[j+jm-ny/2, "
    "i+im-nx/2], with and without a halo (with a halo on the part of the grid where both are returned; the centre value always). "
    "non-trivial = shift != 0 and field not constant; distinct = distinct (idx, relation)"
)
ASSUMPTIONS = ["conditioning-aware tolerance max(1e-9, 5000 eps e^G) (double) / 5e-5 (single) of the field maximum"]
MIN_NONTRIVIAL = {"quick": 300, "thorough": 20000}
TIMEOUT = {"quick": 900, "thorough": 7000}


def cases(tier, seed):
    n = 192 if tier == "quick" else 48000
    out = [{"seed": seed, "idx": i} for i in range(n)]
    # the same statement through the configuration-driven interface: a tower moved by whole cells (its local coordinates edited, the way
    # a user moves a mast in a sweep) moves the footprint by the same cells
    out += [{"seed": seed, "idx": i, "kind": "iface", "_cost": 3} for i in range(12 if tier == "quick" else 600)]
    return out


def shift_draw(rng, n):
    return int(rng.choice([0, 1, -1, n - 1, n // 2, int(rng.integers(-2 * n, 2 * n))]))


def iface_case(case):
    import copy
    import math
    import warnings

    import numpy as np
    import bldfm
    from bldfm.config_parser import parse_config_dict
    from vlib import gen

    rng = gen.rng_for(case["seed"], "C06i", case["idx"])
    nx, ny = int(rng.integers(6, 15)) * 2, int(rng.integers(6, 15)) * 2
    zm = float(rng.uniform(3.0, 10.0))
    dx, dy = float(zm * rng.uniform(1.5, 3.0)), float(zm * rng.uniform(1.5, 3.0))
    xmax, ymax = nx * dx, ny * dy
    with_origin = bool(rng.random() < 0.7)
    ref_lat, ref_lon = float(rng.uniform(-60, 60)), float(rng.uniform(-170, 170))
    R = 6_371_000.0
    i0, j0 = int(rng.integers(nx)), int(rng.integers(ny))
    x0, y0 = i0 * dx, j0 * dy
    prec = str(rng.choice(["double", "single"]))
    dom = {"nx": nx, "ny": ny, "xmax": xmax, "ymax": ymax, "nz": int(rng.integers(4, 10)), "halo": 0.0, "modes": [nx, ny]}
    if with_origin:
        dom.update(ref_lat=ref_lat, ref_lon=ref_lon)
    raw = {"domain": dom,
           "towers": [{"name": "mast", "lat": ref_lat + math.degrees(y0 / R), "lon": ref_lon + math.degrees(x0 / (R * math.cos(math.radians(ref_lat)))), "z_m": zm}],
           "met": {"ustar": float(rng.uniform(0.25, 0.5)), "mol": float(rng.choice([-1, 1]) * 10 ** rng.uniform(1.7, 3)), "wind_speed": float(rng.uniform(2, 6)),
                   "wind_dir": float(rng.uniform(0, 360))},
           "solver": {"closure": str(rng.choice(["MOST", "MOSTM", "CONSTANT"])), "footprint": True, "precision": prec}}
    cfg = parse_config_dict(raw)
    tw = cfg.towers[0]
    if not with_origin:
        tw.x, tw.y = x0, y0
    viol, resid = [], {}
    warnings.simplefilter("ignore")
    with np.errstate(all="ignore"):
        # put the mast exactly on the node (the lat/lon round trip leaves it within nanometres of it) and take the reference footprint
        tw.x, tw.y = x0, y0
        f0 = np.asarray(bldfm.run_bldfm_single(cfg, tw)["flx"], dtype=float)
        sx, sy = shift_draw(rng, nx), shift_draw(rng, ny)
        i1, j1 = (i0 + sx) % nx, (j0 + sy) % ny
        tw.x, tw.y = i1 * dx, j1 * dy
        # every other case runs the moved mast through the series / multi-tower driver
        if case["idx"] % 2:
            f1 = np.asarray(bldfm.run_bldfm_multitower(cfg)["mast"][0]["flx"], dtype=float)
            driver = "run_bldfm_multitower"
        else:
            f1 = np.asarray(bldfm.run_bldfm_single(cfg, tw)["flx"], dtype=float)
            driver = "run_bldfm_single"
    exp = np.roll(f0, (j1 - j0, i1 - i0), axis=(0, 1))
    tol = 1e-9 if prec == "double" else 5e-5
    e = float(np.max(np.abs(f1 - exp))) / (float(np.max(np.abs(exp))) or 1.0) if f1.shape == exp.shape and np.all(np.isfinite(f1)) else float("inf")
    resid[f"tower_translation_interface_{prec}"] = e
    if not e <= tol:
        viol.append({"what": "tower_translation", "through": driver, "rel": e, "from_cell": (i0, j0), "to_cell": (i1, j1), "reference_origin": with_origin,
                     "config": raw})
    return {"evals": 1, "nontrivial": bool((i1, j1) != (i0, j0) and np.ptp(f0) > 0), "sig": f"iface|{case['idx']}", "resid": resid,
            "buckets": {"iface:tower_moved_by_hand": 1, "iface:with_origin" if with_origin else "iface:without_origin": 1, f"iface:{driver}": 1},
            "counters": {"interface_runs": 2}, "violations": viol, "sample": {"config": raw, "from_cell": (i0, j0), "to_cell": (i1, j1), "driver": driver}}


def run_case(case):
    if case.get("kind") == "iface":
        return iface_case(case)
    import numpy as np
    from vlib import gen, solve

    rng = gen.rng_for(case["seed"], "C06", case["idx"])
    viol, resid, sigs = [], {}, []
    counters = {"solver_calls": 0, "recentre_overlap_cells": 0}
    # ---------------- (a)-(c) and (d) on the periodic domain (halo = 0)
    odd_grid = bool(rng.random() < 0.3)  # translation and reflection hold for any parity; only re-centring needs even sizes
    St, _ = gen.draw_setup(rng, halo_classes=("zero",), even=not odd_grid)
    if St is None:
        return {"evals": 0, "nontrivial": False, "skipped": "no draw inside the conditioning guard"}
    nx, ny, dx, dy = St["nx"], St["ny"], St["dx"], St["dy"]
    nz = len(St["z"])
    prec = "double" if rng.random() < 0.75 else "single"
    tol = solve.tol(prec, St["G"], cr=St["cr"])
    levels, lkind = solve.pick_levels(rng, nz, str(rng.choice(["top", "scalar", "few", "shuffled"])))
    nl = solve.nlev(levels)
    desc = gen.describe(St)

    def run(S_, q, **kw):
        counters["solver_calls"] += 1
        _, c, f = solve.solve(S_, q, levels, precision=prec, **kw)
        return solve.as3d(c, nl), solve.as3d(f, nl)

    def cmp(what, a, b, extra, floor=0.0):
        scale = max(float(np.max(np.abs(b))), floor, 1e-300)
        e = float(np.max(np.abs(a - b))) / scale
        key = f"{what}_{prec}"
        resid[key] = max(resid.get(key, 0.0), e)
        # phase shifts applied after the vertical solve are not amplified by the shooting: flat tolerance there
        t = tol if what in ("source_translation", "footprint_is_point_reflection_of_unit_response") else solve.TOL_EXACT[prec]
        if not e <= t:
            viol.append(dict(what=what, rel=e, tol=t, precision=prec, levels=levels, setup=desc, **extra))

    q0, skind = gen.make_source(rng, ny, nx)
    bg = float(rng.choice([0.0, 3.5]))
    sx, sy = shift_draw(rng, nx), shift_draw(rng, ny)
    c0, f0 = run(St, q0, srf_bg_conc=bg)
    sc0, sf0 = solve.surface_scales(St, q0, precision=prec)
    c1, f1 = run(St, np.roll(q0, (sy, sx), axis=(0, 1)), srf_bg_conc=bg)
    cmp("source_translation", c1, np.roll(c0, (sy, sx), axis=(1, 2)), dict(field="conc", shift=(sx, sy), source=skind), floor=sc0)
    cmp("source_translation", f1, np.roll(f0, (sy, sx), axis=(1, 2)), dict(field="flx", shift=(sx, sy), source=skind), floor=sf0)
    if (sx % nx or sy % ny) and np.ptp(q0) > 0:
        sigs.append(f"{case['idx']}|a")
    # (b)
    im, jm = int(rng.integers(nx)), int(rng.integers(ny))
    tx, ty = shift_draw(rng, nx), shift_draw(rng, ny)
    G0, F0 = run(St, np.zeros((ny, nx)), footprint=True, meas_pt=(im * dx, jm * dy))
    im2, jm2 = (im + tx) % nx, (jm + ty) % ny
    G1, F1 = run(St, np.zeros((ny, nx)), footprint=True, meas_pt=(im2 * dx, jm2 * dy))
    cmp("tower_translation", F1, np.roll(F0, (ty, tx), axis=(1, 2)), dict(field="flx", shift=(tx, ty), point=(im, jm)))
    cmp("tower_translation", G1, np.roll(G0, (ty, tx), axis=(1, 2)), dict(field="conc", shift=(tx, ty), point=(im, jm)))
    if tx % nx or ty % ny:
        sigs.append(f"{case['idx']}|b")
    # (c)
    unit = np.zeros((ny, nx))
    unit[jm, im] = 1.0
    Rc, Rf = run(St, unit)
    scu, sfu = solve.surface_scales(St, unit, precision=prec)
    jj = (2 * jm - np.arange(ny)) % ny
    ii = (2 * im - np.arange(nx)) % nx
    cmp("footprint_is_point_reflection_of_unit_response", F0, Rf[:, jj][:, :, ii], dict(field="flx", point=(im, jm)), floor=sfu)
    cmp("footprint_is_point_reflection_of_unit_response", G0, Rc[:, jj][:, :, ii], dict(field="conc", point=(im, jm)), floor=scu)
    sigs.append(f"{case['idx']}|c")
    # (d) periodic (even sizes only: for odd sizes xmax/2 is not on the grid)
    if nx % 2 or ny % 2:
        return finish(St, desc, prec, lkind, "skipped_odd", sigs, resid, counters, viol, case, nl, (sx, sy), (im, jm), (tx, ty), None, levels)
    im_, jm_ = int(rng.integers(nx)), int(rng.integers(ny))
    if im_ == 0 and jm_ == 0:
        im_ = 1
    cr, fr = run(St, q0, srf_bg_conc=bg, meas_pt=(im_ * dx, jm_ * dy))
    J = (np.arange(ny) + jm_ - ny // 2) % ny
    I = (np.arange(nx) + im_ - nx // 2) % nx
    cmp("recentring", cr, c0[:, J][:, :, I], dict(field="conc", point=(im_, jm_), halo=0.0))
    cmp("recentring", fr, f0[:, J][:, :, I], dict(field="flx", point=(im_, jm_), halo=0.0))
    if np.ptp(q0) > 0:
        sigs.append(f"{case['idx']}|d0")
    # ---------------- (d) with a halo
    Sh, _ = gen.draw_setup(rng, halo_classes=("none", "comm", "comm_x", "incomm", "sub"), even=True)
    hb = "none"
    if Sh is not None:
        nx2, ny2, dx2, dy2 = Sh["nx"], Sh["ny"], Sh["dx"], Sh["dy"]
        tolh = solve.TOL_EXACT[prec]
        lv2 = len(Sh["z"]) - 1
        q2, _k = gen.make_source(rng, ny2, nx2)
        i2, j2 = int(rng.integers(nx2)), int(rng.integers(ny2))
        if i2 == 0 and j2 == 0:
            j2 = 1
        counters["solver_calls"] += 2
        _, ca, fa = solve.solve(Sh, q2, lv2, precision=prec, srf_bg_conc=bg)
        _, cb, fb = solve.solve(Sh, q2, lv2, precision=prec, srf_bg_conc=bg, meas_pt=(i2 * dx2, j2 * dy2))
        J = np.arange(ny2) + j2 - ny2 // 2
        I = np.arange(nx2) + i2 - nx2 // 2
        okJ, okI = (J >= 0) & (J < ny2), (I >= 0) & (I < nx2)
        for nm, A, B in (("conc", ca, cb), ("flx", fa, fb)):
            exp = A[np.ix_(J[okJ], I[okI])]
            got = B[np.ix_(np.where(okJ)[0], np.where(okI)[0])]
            counters["recentre_overlap_cells"] += int(exp.size)
            scale = max(float(np.max(np.abs(A))), 1e-300)
            e = float(np.max(np.abs(got - exp))) / scale if exp.size else 0.0
            key = f"recentring_halo_{prec}"
            resid[key] = max(resid.get(key, 0.0), e)
            if not e <= tolh:
                viol.append(dict(what="recentring", field=nm, rel=e, tol=tolh, precision=prec, point=(i2, j2), halo=Sh["halo"],
                                 centre_value=float(B[ny2 // 2, nx2 // 2]), field_at_point=float(A[j2, i2]), setup=gen.describe(Sh)))
        hb = Sh["halo_class"]
        if np.ptp(q2) > 0:
            sigs.append(f"{case['idx']}|dh")
        # ... and on every cell of the window, also those whose values come from the halo: for a source that stays inside the window
        # when it is moved, re-centring on a point s cells from the centre gives the field of the source moved by -s cells
        rr = gen.rng_for(case["seed"], "C06w", case["idx"])
        if nx2 >= 8 and ny2 >= 8:
            q3 = np.zeros((ny2, nx2))
            if rr.random() < 0.5:
                bj, bi = slice(ny2 // 4 + 1, ny2 - ny2 // 4 - 1), slice(nx2 // 4 + 1, nx2 - nx2 // 4 - 1)
                s_x, s_y = int(rr.integers(-(nx2 // 4), nx2 // 4 + 1)), int(rr.integers(-(ny2 // 4), ny2 // 4 + 1))
            else:
                # a source in the south-west corner and a point west / south of it - up to a quarter of the window outside the map
                # (negative coordinates): the source then moves north-east and stays inside
                bj, bi = slice(1, max(2, ny2 // 4)), slice(1, max(2, nx2 // 4))
                s_x, s_y = -int(rr.integers(0, 3 * nx2 // 4 - 1)), -int(rr.integers(0, 3 * ny2 // 4 - 1))
                if rr.random() < 0.3:
                    (s_x, s_y) = (s_x, 0) if rr.random() < 0.5 else (0, s_y)
            q3[bj, bi] = rr.uniform(0.5, 1.5, size=q3[bj, bi].shape)
            if s_x == 0 and s_y == 0:
                s_x = -1
            if nx2 // 2 + s_x == 0 and ny2 // 2 + s_y == 0:
                s_x += 1   # the point (0, 0) is the documented "no re-centring" request
            counters["solver_calls"] += 2
            _, cw, fw = solve.solve(Sh, q3, lv2, precision=prec, srf_bg_conc=bg, meas_pt=((nx2 // 2 + s_x) * dx2, (ny2 // 2 + s_y) * dy2))
            _, cm, fm = solve.solve(Sh, np.roll(q3, (-s_y, -s_x), axis=(0, 1)), lv2, precision=prec, srf_bg_conc=bg)
            for nm, A, B in (("conc", cm, cw), ("flx", fm, fw)):
                counters["recentre_whole_window_cells"] = counters.get("recentre_whole_window_cells", 0) + int(A.size)
                # (the background is stored in the same mean mode as the field: storage rounding is relative to plume + |background|)
                e = float(np.max(np.abs(B - A))) / max(float(np.max(np.abs(A - (bg if nm == "conc" else 0.0)))) + (abs(bg) if nm == "conc" else 0.0), 1e-300)
                key = f"recentring_whole_window_{prec}"
                resid[key] = max(resid.get(key, 0.0), e)
                tolw = solve.tol(prec, Sh["G"], cr=Sh["cr"])  # two different source spectra: rounding amplified by e^G, as everywhere
                if not e <= tolw:
                    viol.append(dict(what="recentring", field=nm, rel=e, tol=tolw, precision=prec, point=(nx2 // 2 + s_x, ny2 // 2 + s_y),
                                     halo=Sh["halo"], setup=gen.describe(Sh),
                                     note="whole window against the field of the source moved the other way (cells fed from the halo included)"))
        # (c) with a halo: the footprint for a tower is the point reflection about the tower of the response to a unit source
        # placed there, on the cells both returned fields cover
        it, jt = int(rng.integers(nx2)), int(rng.integers(ny2))
        unit2 = np.zeros((ny2, nx2))
        unit2[jt, it] = 1.0
        counters["solver_calls"] += 2
        _, Gh, Fh = solve.solve(Sh, np.zeros((ny2, nx2)), lv2, precision=prec, footprint=True, meas_pt=(it * dx2, jt * dy2))
        _, Rch, Rfh = solve.solve(Sh, unit2, lv2, precision=prec)
        J2, I2 = 2 * jt - np.arange(ny2), 2 * it - np.arange(nx2)
        okJ2, okI2 = (J2 >= 0) & (J2 < ny2), (I2 >= 0) & (I2 < nx2)
        tolr = solve.tol(prec, Sh["G"], cr=Sh["cr"])
        for nm, A, B in (("flx", Fh, Rfh), ("conc", Gh, Rch)):
            got = A[np.ix_(np.where(okJ2)[0], np.where(okI2)[0])]
            exp = B[np.ix_(J2[okJ2], I2[okI2])]
            scale = max(float(np.max(np.abs(B))), 1e-300)
            e = float(np.max(np.abs(got - exp))) / scale
            key = f"reflection_halo_{prec}"
            resid[key] = max(resid.get(key, 0.0), e)
            if not e <= tolr:
                viol.append(dict(what="footprint_is_point_reflection_of_unit_response", field=nm, rel=e, tol=tolr, precision=prec, point=(it, jt),
                                 halo=Sh["halo"], setup=gen.describe(Sh)))
        sigs.append(f"{case['idx']}|ch")
        # (b) with a halo: moving the tower by whole cells moves the footprint by the same cells - also when the tower then stands on
        # the far edge of the flux map (node nx / ny), one cell before its origin, or anywhere in the halo strip
        pxh, pyh = Sh["px"], Sh["py"]
        ib = int(rng.choice([nx2, -1, int(rng.integers(-pxh, nx2 + pxh))])) if pxh else int(rng.integers(nx2))
        jb = int(rng.choice([ny2, -1, int(rng.integers(-pyh, ny2 + pyh))])) if pyh else int(rng.integers(ny2))
        ib, jb = max(-pxh, min(nx2 + pxh - 1, ib)), max(-pyh, min(ny2 + pyh - 1, jb))
        counters["solver_calls"] += 1
        _, Gb, Fb = solve.solve(Sh, np.zeros((ny2, nx2)), lv2, precision=prec, footprint=True, meas_pt=(ib * dx2, jb * dy2))
        sxh, syh = ib - it, jb - jt
        Js, Is = np.arange(ny2) - syh, np.arange(nx2) - sxh
        okJs, okIs = (Js >= 0) & (Js < ny2), (Is >= 0) & (Is < nx2)
        if okJs.any() and okIs.any():
            for nm, A, B in (("flx", Fh, Fb), ("conc", Gh, Gb)):
                got = B[np.ix_(np.where(okJs)[0], np.where(okIs)[0])]
                exp = A[np.ix_(Js[okJs], Is[okIs])]
                scale = max(float(np.max(np.abs(A))), float(np.max(np.abs(B))), 1e-300)
                e = float(np.max(np.abs(got - exp))) / scale
                key = f"tower_translation_halo_{prec}"
                resid[key] = max(resid.get(key, 0.0), e)
                if not e <= tolr:
                    viol.append(dict(what="tower_translation", field=nm, rel=e, tol=tolr, precision=prec, point=(it, jt), moved_to=(ib, jb),
                                     outside_flux_map=not (0 <= ib < nx2 and 0 <= jb < ny2), halo=Sh["halo"], setup=gen.describe(Sh)))
            counters["tower_moves_under_halo"] = counters.get("tower_moves_under_halo", 0) + 1
            counters["tower_moved_outside_flux_map"] = counters.get("tower_moved_outside_flux_map", 0) + int(not (0 <= ib < nx2 and 0 <= jb < ny2))
    return finish(St, desc, prec, lkind, hb, sigs, resid, counters, viol, case, nl, (sx, sy), (im, jm), (tx, ty), (im_, jm_), levels)


def finish(St, desc, prec, lkind, hb, sigs, resid, counters, viol, case, nl, sshift, tower, tshift, rpoint, levels):
    from vlib import gen

    b = {f"prec:{prec}": 1, f"modes:{St['mode_class']}": 1, f"profiles:{St['pdesc'].get('closure', St['pdesc']['kind'])}": 1,
         f"recentre_halo:{hb}": 1, f"levels:{lkind}": 1, gen.gbucket(St["G"]): 1,
         f"parity:{'even' if St['nx'] % 2 == 0 and St['ny'] % 2 == 0 else 'odd'}": 1}
    return {"evals": 9 * nl + 2, "nontrivial": bool(sigs), "sig": sigs, "buckets": b, "resid": resid, "counters": counters,
            "violations": viol, "sample": {"setup": desc, "source_shift": sshift, "tower": tower, "tower_shift": tshift,
                                           "recentre_point": rpoint, "levels": levels, "precision": prec}}
