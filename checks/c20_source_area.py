"""C20 - source-area rescaling and percentile contours mean what they say.

Reference-model monitor: O(n^2) brute-force evaluation of the definition (exact
rational arithmetic for the percentile search) next to every observed call.
"""

import math
from fractions import Fraction

ID = "C20"
LEVEL = "exploration"
RULE = (
    "fields {random, sparse, many ties, many zeros, solver footprints clipped at 0, tiny/huge magnitudes} of 2..40 x 2..40 cells; "
    "base g in {the five built-in base functions with towers inside/outside the grid and any wind, random tie-free, random with ties}; "
    "p in (0,1] incl. 1.0 and 1e-9; 2-D and 3-D inputs, 1-D and 2-D coordinates, C / Fortran / transposed / strided memory layouts.  non-trivial = field has >=2 distinct positive "
    "values; distinct = distinct (field kind, base kind, shape, seed index)"
)
ASSUMPTIONS = [
    "floating-point cumulative sums are compared with the exact value within 8*n*eps*total",
    "a percentile target within 8*n ulp of an exact partial sum may resolve to either neighbouring cell count (rounding band)",
]
MIN_NONTRIVIAL = {"quick": 150, "thorough": 6400}
TIMEOUT = {"quick": 600, "thorough": 7000}
EPS = 2.0**-52


def cases(tier, seed):
    n = 240 if tier == "quick" else 38400
    out_ = [{"seed": seed, "idx": i} for i in range(n)]
    if tier == "thorough":
        out_.append({"seed": seed, "kind": "repo_tests", "_cost": 40})
    return out_


def make_field(rng, ny, nx, kind):
    import numpy as np

    if kind == "random":
        f = rng.random((ny, nx))
    elif kind == "sparse":
        f = np.zeros((ny, nx))
        for _ in range(max(2, ny * nx // 8)):
            f[rng.integers(ny), rng.integers(nx)] = rng.random()
    elif kind == "ties":
        f = rng.integers(0, 4, size=(ny, nx)).astype(float)
        if f.sum() == 0:
            f[0, 0] = 1.0
    elif kind == "zeros":
        f = rng.random((ny, nx)) * (rng.random((ny, nx)) < 0.25)
        if f.sum() == 0:
            f[0, 0] = 1.0
    elif kind == "magnitudes":
        f = rng.random((ny, nx)) * 10.0 ** rng.integers(-200, 200)
    elif kind == "int_counts":  # integer dtype (hit counts)
        f = rng.integers(0, 50, size=(ny, nx)).astype(np.int64)
        if f.sum() == 0:
            f[0, 0] = 1
    elif kind == "wide":
        f = 10.0 ** rng.uniform(-12, 0, size=(ny, nx))
    elif kind == "very_wide":  # a footprint that falls off over thirty orders of magnitude
        f = 10.0 ** rng.uniform(-30, 0, size=(ny, nx))
    else:
        raise ValueError(kind)
    return f


def brute_source_area(f, g):
    """lower/upper admissible value per cell from the definition."""
    import numpy as np

    ff, gg = f.ravel(), g.ravel()
    gt = gg[None, :] > gg[:, None]
    eq = gg[None, :] == gg[:, None]
    np.fill_diagonal(eq, False)
    lo = (gt * ff[None, :]).sum(1)
    hi = lo + (eq * ff[None, :]).sum(1)
    return lo.reshape(f.shape), hi.reshape(f.shape)


def brute_percentile(vals, p):
    """exact: (m, level, slack) with m the fewest top cells whose sum reaches p*total.
    slack = min |partial sum - target| / total around the decision (for the rounding band)."""
    s = sorted((float(v) for v in vals), reverse=True)
    fr = [Fraction(v) for v in s]
    total = sum(fr)
    target = Fraction(p) * total
    acc = Fraction(0)
    m = None
    prev = Fraction(0)
    for i, v in enumerate(fr):
        acc += v
        if acc >= target:
            m = i + 1
            slack = min(abs(acc - target), abs(prev - target)) / total if total else Fraction(0)
            # also the next partial sums equal to acc (zeros / exact ties at target) do not matter: fewest wins
            return m, s[i], float(slack), s
        prev = acc
    return len(s), s[-1], 0.0, s


def run_case(case):
    if case.get("kind") == "repo_tests":
        from vlib import hooks

        return hooks.run_repo_tests(ID, ['test_plotting.py'])
    import numpy as np
    import bldfm
    from bldfm import utils as U
    from bldfm.plotting.footprint import extract_percentile_contour as _epc
    from vlib import purity

    extract_percentile_contour = purity.guarded(_epc, "extract_percentile_contour")
    from vlib import gen

    rng = gen.rng_for(case["seed"], "C20", case["idx"])
    viol, buckets, resid = [], {}, {"source_area_excess": 0.0, "level_scale_rel": 0.0}
    counters = {"get_source_area_calls": 0, "percentile_calls": 0, "in_rounding_band": 0, "transform_checks": 0, "perm_checks": 0}

    ny, nx = int(rng.integers(2, 41)), int(rng.integers(2, 41))
    fkind = str(rng.choice(["random", "sparse", "ties", "zeros", "magnitudes", "wide", "very_wide", "solver", "int_counts"]))
    dx, dy = float(rng.uniform(0.5, 20)), float(rng.uniform(0.5, 20))
    x1, y1 = np.arange(nx) * dx, np.arange(ny) * dy
    X, Y = np.meshgrid(x1, y1)
    if fkind == "solver":
        from bldfm.pbl_model import vertical_profiles
        from bldfm.solver import steady_state_transport_solver as S

        nx += nx % 2
        ny += ny % 2
        x1, y1 = np.arange(nx) * dx, np.arange(ny) * dy
        X, Y = np.meshgrid(x1, y1)
        zm = float(max(dx, dy) * rng.uniform(0.5, 1.5))
        wd = float(rng.uniform(0, 6.28))
        z, prof = vertical_profiles(8, zm, (3 * math.cos(wd), 3 * math.sin(wd)), ustar=0.35, closure="CONSTANT")
        _, _, flx = S(np.zeros((ny, nx)), z, prof, (nx * dx, ny * dy), 8, modes=(nx, ny), meas_pt=(x1[nx // 2], y1[ny // 2]),
                      footprint=True, halo=0.0, precision="double")
        f = np.clip(flx, 0.0, None)
    else:
        f = make_field(rng, ny, nx, fkind)
    n = f.size
    total = float(math.fsum(f.ravel()))
    tol = 8 * n * EPS * total

    # ------------------------------------------------------------ base functions
    tower = (float(rng.uniform(-0.5, 1.5) * nx * dx), float(rng.uniform(-0.5, 1.5) * ny * dy))
    wa = float(rng.uniform(0, 2 * np.pi))
    wind = (float(3 * math.cos(wa)), float(3 * math.sin(wa)))
    gkind = str(rng.choice(["contribution", "circular", "upwind", "crosswind", "sector", "random", "random_ties", "rank_map", "class_codes",
                            "random_with_infinities", "log_of_field"]))
    if gkind == "contribution":
        g = U.source_area_contribution(f)
    elif gkind == "circular":
        g = U.source_area_circular(X, Y, tower)
    elif gkind == "upwind":
        g = U.source_area_upwind(X, Y, tower, wind)
    elif gkind == "crosswind":
        g = U.source_area_crosswind(X, Y, tower, wind)
    elif gkind == "sector":
        g = U.source_area_sector(X, Y, tower, wind)
    elif gkind == "random":
        g = rng.permutation(n).reshape(f.shape).astype(float) + rng.random()
    elif gkind == "random_with_infinities":
        # infinities are ordered values like any other: the largest base value written as +inf, the smallest as -inf (1 / r^2 with the
        # tower on a node, the logarithm of a field with one exact zero)
        g = rng.permutation(n).reshape(f.shape).astype(float) + rng.random()
        g[g == g.max()] = np.inf
        if rng.random() < 0.6:
            g[g == g.min()] = -np.inf
    elif gkind == "log_of_field":
        with np.errstate(divide="ignore"):
            g = np.log(f)          # -inf (tied) wherever the footprint is exactly zero
    elif gkind == "rank_map":
        # an integer-typed base field (ranks 0 .. n-1; signed and unsigned types, the rank 0 included)
        gt_ = [np.int64, np.int32, np.uint32, np.uint16, np.uint64][int(rng.integers(5))]
        g = rng.permutation(n).reshape(f.shape).astype(gt_)
    elif gkind == "class_codes":
        # a few integer class codes (many ties), code 0 present
        gt_ = [np.uint8, np.int8, np.int64, np.uint16][int(rng.integers(4))]
        g = rng.integers(0, max(2, min(100, n // 4)), size=f.shape).astype(gt_)
        g.ravel()[int(rng.integers(n))] = 0
    else:
        g = rng.integers(0, max(2, n // 4), size=f.shape).astype(float)
    if g.shape != f.shape:
        viol.append({"what": "base_function_shape", "g": gkind, "shape": g.shape})
        g = np.resize(g, f.shape)

    r = bldfm.get_source_area(f, g)
    counters["get_source_area_calls"] += 1
    lo, hi = brute_source_area(f, g)
    exc = float(max((lo - r).max(), (r - hi).max()))
    resid["source_area_excess"] = max(0.0, exc) / total if total else 0.0
    # per cell, relative to the sum the definition names for THAT cell (a sum of non-negative numbers is accurate to n*eps of itself,
    # whatever the total is): an implementation that forms "total minus the rest" is wrong where the enclosed contribution is tiny
    rel_bad = None
    if r.shape == g.shape and f.dtype.kind == "f":
        slack_ = 16 * n * EPS
        under = r < lo * (1 - slack_) - 1e-300
        over = r > hi * (1 + slack_) + 1e-300
        if bool((under | over).any()):
            j_ = int(np.argmax((under | over).ravel()))
            rel_bad = (j_, float(r.ravel()[j_]), float(lo.ravel()[j_]), float(hi.ravel()[j_]))
    if r.shape != g.shape:
        viol.append({"what": "rescaled_shape", "got": r.shape})
    elif rel_bad is not None and not exc > tol:
        viol.append({"what": "rescaled_value_outside_definition", "field": fkind, "base": gkind, "shape": f.shape, "cell": rel_bad[0],
                     "got": rel_bad[1], "lower": rel_bad[2], "upper": rel_bad[3], "note": "relative to the cell's own sum (total is %g)" % total})
    elif exc > tol:
        i = int(np.argmax(np.maximum(lo - r, r - hi)))
        viol.append({"what": "rescaled_value_outside_definition", "field": fkind, "base": gkind, "shape": f.shape, "cell": i,
                     "got": float(r.ravel()[i]), "lo": float(lo.ravel()[i]), "hi": float(hi.ravel()[i]), "tol": tol})
    if r.min() < 0 or r.max() > total + tol or np.any(r > total - f + tol):
        viol.append({"what": "rescaled_range", "min": float(r.min()), "max": float(r.max()), "total": total})
    # anti-monotone in g
    o = np.argsort(g.ravel(), kind="stable")
    gs, rs = g.ravel()[o], r.ravel()[o]
    inc = (np.diff(rs) > tol) & (np.diff(gs) > 0)
    if inc.any():
        viol.append({"what": "rescaled_not_antimonotone_in_g", "field": fkind, "base": gkind, "shape": f.shape})
    tie_free = len(np.unique(g)) == n
    # strictly increasing transforms of g (kept only if they stay injective and order-preserving on this data)
    for name, T in (("affine", lambda a: 3.0 * a + 7.0), ("cube", lambda a: a**3), ("atan", lambda a: np.arctan(a / (1 + np.abs(g).max())))):
        if name != "affine" and not np.all(np.isfinite(g)):
            continue   # (cube of a logarithm / the arctangent scale are not meaningful with infinite entries)
        g2 = T(g.astype(float) if g.dtype.kind in "iu" else g)
        if np.array_equal(np.argsort(g2.ravel(), kind="stable"), o) and len(np.unique(g2)) == len(np.unique(g)):
            r2 = bldfm.get_source_area(f, g2)
            counters["get_source_area_calls"] += 1
            counters["transform_checks"] += 1
            if tie_free:
                if not np.array_equal(r2, r):
                    viol.append({"what": "not_invariant_under_increasing_transform", "transform": name, "base": gkind, "shape": f.shape,
                                 "maxdiff": float(np.abs(r2 - r).max())})
            else:
                lo2, hi2 = lo, hi
                if max((lo2 - r2).max(), (r2 - hi2).max()) > tol:
                    viol.append({"what": "transformed_value_outside_definition", "transform": name, "base": gkind})
    # common permutation of the cells
    perm = rng.permutation(n)
    fp, gp = f.ravel()[perm].reshape(f.shape), g.ravel()[perm].reshape(g.shape)
    rp = bldfm.get_source_area(fp, gp)
    counters["get_source_area_calls"] += 1
    counters["perm_checks"] += 1
    if tie_free:
        if not np.array_equal(rp.ravel(), r.ravel()[perm]):
            viol.append({"what": "not_invariant_under_permutation", "base": gkind, "shape": f.shape,
                         "maxdiff": float(np.abs(rp.ravel() - r.ravel()[perm]).max())})
    else:
        lop, hip = lo.ravel()[perm], hi.ravel()[perm]
        if max((lop - rp.ravel()).max(), (rp.ravel() - hip).max()) > tol:
            viol.append({"what": "permuted_value_outside_definition", "base": gkind})

    # memory layout must not matter: transposing both fields is a common permutation of the cells
    layouts = {
        "transposed_views": (f.T, g.T, lambda x: x.T),
        "fortran_order": (np.asfortranarray(f), np.asfortranarray(g), lambda x: x),
        "f_fortran_g_c": (np.asfortranarray(f), np.ascontiguousarray(g), lambda x: x),
        "strided_views": (np.repeat(f, 2, axis=1)[:, ::2], np.repeat(g, 2, axis=0)[::2], lambda x: x),
    }
    for lname, (fl, gl, back) in layouts.items():
        rl = back(np.asarray(bldfm.get_source_area(fl, gl)))
        counters["get_source_area_calls"] += 1
        counters["layout_checks"] = counters.get("layout_checks", 0) + 1
        if rl.shape != r.shape:
            viol.append({"what": "result_depends_on_memory_layout", "layout": lname, "shape": rl.shape})
        elif tie_free:
            if not np.array_equal(rl, r):
                viol.append({"what": "result_depends_on_memory_layout", "layout": lname, "base": gkind, "shape": f.shape,
                             "maxdiff": float(np.abs(rl - r).max())})
        elif max((lo - rl).max(), (rl - hi).max()) > tol:
            viol.append({"what": "result_depends_on_memory_layout", "layout": lname, "base": gkind, "shape": f.shape, "note": "outside the definition"})

    # a stack of levels handed over whole (f and g of shape (levels, ny, nx)): the definition runs over ALL cells of what is handed over
    if case["idx"] % 5 == 0:
        nl3 = int(rng.integers(2, 4))
        f3 = np.stack([make_field(rng, f.shape[0], f.shape[1], "random") for _ in range(nl3)])
        g3 = rng.permutation(f3.size).reshape(f3.shape).astype(float) + rng.random()
        try:
            r3 = np.asarray(bldfm.get_source_area(f3, g3))
            counters["get_source_area_calls"] += 1
            counters["stack_checks"] = counters.get("stack_checks", 0) + 1
            lo3, hi3 = brute_source_area(f3, g3)
            t3 = 8 * f3.size * EPS * float(f3.sum())
            if r3.shape != g3.shape or max((lo3 - r3).max(), (r3 - hi3).max()) > t3:
                viol.append({"what": "rescaled_value_outside_definition", "field": "stack of levels", "base": "random tie-free", "shape": f3.shape,
                             "excess": float(max((lo3 - r3).max(), (r3 - hi3).max())) if r3.shape == g3.shape else "shape"})
        except Exception as e:  # noqa
            viol.append({"what": "rescaled_value_outside_definition", "field": "stack of levels", "exc": repr(e)[:160], "shape": f3.shape})

    # ------------------------------------------------------------ percentile contour
    form = str(rng.choice(["2d_grid2d", "2d_grid1d", "3d_grid3d", "3d_grid2d"]))
    lvl = 0
    if form == "2d_grid2d":
        fld, grid = f, (X, Y, None)
    elif form == "2d_grid1d":
        fld, grid = f, (x1, y1, None)
    else:
        nl = int(rng.integers(2, 4))
        lvl = int(rng.integers(0, nl))
        stack = np.stack([make_field(rng, f.shape[0], f.shape[1], "random") for _ in range(nl)])
        stack[lvl] = f
        if form == "3d_grid3d":
            Z3, Y3, X3 = np.meshgrid(np.arange(nl, dtype=float), y1, x1, indexing="ij")
            fld, grid = stack, (X3, Y3, Z3)
        else:
            fld, grid = stack, (X, Y, None)
    # rasters stored north-up (rows running north to south) or mirrored: one or both coordinate axes descend, field flipped with them -
    # the cells, their values and their area are the same
    orient = str(rng.choice(["as_is", "as_is", "y_descending", "x_descending", "both_descending"]))
    if orient != "as_is":
        ax_ = {"y_descending": (-2,), "x_descending": (-1,), "both_descending": (-2, -1)}[orient]
        fld = np.flip(fld, axis=ax_).copy()

        def _fl(c_):
            if c_ is None:
                return None
            c_ = np.asarray(c_)
            if c_.ndim == 1:
                return c_
            return np.flip(c_, axis=ax_).copy()

        gx_, gy_, gz_ = grid
        if np.ndim(gx_) == 1:
            gx_ = gx_[::-1].copy() if -1 in ax_ else gx_
            gy_ = gy_[::-1].copy() if -2 in ax_ else gy_
            grid = (gx_, gy_, gz_)
        else:
            grid = (_fl(gx_), _fl(gy_), _fl(gz_))
    cell = abs(x1[1] - x1[0]) * abs(y1[1] - y1[0])
    ps = sorted(set([1.0, 1e-9, 0.5, 0.8] + [float(x) for x in rng.uniform(0, 1, size=4)] + [float(rng.uniform(0.99, 1.0))]))
    prev = None
    for p in ps:
        try:
            lev, area = extract_percentile_contour(fld, grid, pct=p, level=lvl)
        except Exception as e:  # noqa - a fraction in (0, 1] on a non-negative field is inside the stated domain
            viol.append({"what": "percentile_contour_raises", "p": p, "exc": f"{type(e).__name__}: {str(e)[:160]}", "field": fkind, "shape": f.shape, "form": form})
            continue
        counters["percentile_calls"] += 1
        m, explev, slack, svals = brute_percentile(f.ravel(), p)
        count = area / cell
        if abs(count - round(count)) > 1e-6:
            viol.append({"what": "area_not_count_times_cell", "p": p, "area": area, "cell": cell, "form": form})
            continue
        count = int(round(count))
        if not 1 <= count <= n:
            viol.append({"what": "percentile_count", "p": p, "got_cells": count, "expected_cells": m, "cells_in_field": n, "field": fkind, "shape": f.shape,
                         "form": form, "note": "area is not a number of cells of the field"})
            continue
        band = slack <= 8 * n * EPS
        if band:
            counters["in_rounding_band"] += 1
        ok_count = count == m or (band and abs(count - m) <= 1) or (band and svals[min(count, n) - 1] == svals[m - 1] == 0)
        if band and not ok_count:
            # inside the band any count whose exact partial sum is within the band of the target is admissible
            acc = math.fsum(svals[:count])
            ok_count = abs(acc - p * total) <= 16 * n * EPS * total
        if not ok_count:
            viol.append({"what": "percentile_count", "p": p, "got_cells": count, "expected_cells": m, "field": fkind, "shape": f.shape,
                         "form": form, "slack": slack})
        elif lev != svals[count - 1]:
            viol.append({"what": "percentile_level_not_smallest_selected", "p": p, "level": lev, "expected": svals[count - 1], "cells": count,
                         "field": fkind, "form": form})
        if prev is not None and (area < prev[1] - 1e-9 * cell or lev > prev[0]):
            viol.append({"what": "percentile_not_monotone_in_p", "p": p, "prev": prev, "now": (lev, area)})
        prev = (lev, area)
        # scale covariance (power of two: exact; arbitrary factor: to rounding, outside the band)
        for s in (2.0 ** int(rng.integers(-20, 20)), float(rng.uniform(0.1, 10))):
            try:
                lev2, area2 = extract_percentile_contour(fld * s, grid, pct=p, level=lvl)
            except Exception as e:  # noqa
                viol.append({"what": "percentile_contour_raises", "p": p, "scaled_by": s, "exc": f"{type(e).__name__}: {str(e)[:160]}", "field": fkind, "form": form})
                continue
            counters["percentile_calls"] += 1
            exact = math.log2(s).is_integer()
            if exact or not band:
                rel = abs(lev2 - lev * s) / (abs(lev * s) or 1.0)
                resid["level_scale_rel"] = max(resid["level_scale_rel"], rel)
                if (exact and (lev2 != lev * s or area2 != area)) or (not exact and (rel > 1e-12 or (area2 != area and slack > 64 * n * EPS))):
                    viol.append({"what": "percentile_not_scale_covariant", "p": p, "s": s, "level": (lev, lev2), "area": (area, area2),
                                 "slack": slack})
    nontriv = len(np.unique(f[f > 0])) >= 2
    b = {f"field:{fkind}": 1, f"base:{gkind}": 1, f"form:{form}": 1, f"raster_orientation:{orient}": 1, ("g_tie_free" if tie_free else "g_with_ties"): 1}
    return {"evals": counters["get_source_area_calls"] + counters["percentile_calls"], "nontrivial": bool(nontriv),
            "sig": f"{fkind}|{gkind}|{f.shape}|{form}|{case['idx']}", "buckets": b, "resid": resid, "counters": counters,
            "violations": viol,
            "sample": {"field": fkind, "base": gkind, "shape": f.shape, "form": form, "tower": tower, "wind": wind, "p": ps[:4]}}
