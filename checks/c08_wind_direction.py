"""C08 - the meteorological wind-direction convention holds end to end.

Reference-model monitor: (unit) the wind decomposition against math.sin/cos;
(end to end) the bearing of the footprint's peak region, observed through
parse_config_dict -> run_bldfm_single with the tower given by latitude/longitude,
against the configured wind direction.
"""

import math

ID = "C08"
LEVEL = "exploration"
RULE = (
    "wind_dir on a 7.5 degree lattice (48 directions, always executed) plus seeded random directions; speeds 1-10 m/s; L of both signs; "
    "closures MOST/MOSTM/CONSTANT/OAAHOC; square and oblong grids (dx != dy) centred on the tower; reference points |lat|<=60, any "
    "longitude; tower given by lat/lon; every third case also as a 3-step direction sweep through run_bldfm_timeseries.  Statistic: bearing of the centroid of the peak region (f >= 0.25 max inside the largest "
    "tower-centred disc).  Preconditions (skips counted): dx, dy <= z_m, no spectral truncation, conditioning G<=18, peak region >= 12 "
    "cells and not cut by the disc.  non-trivial = direction more than 2.5 deg away from 0/180 (where a mirror d -> -d would be "
    "invisible); distinct = distinct (direction, closure, grid) cases"
)
ASSUMPTIONS = [
    "threshold 5 degrees against <= 1.8 degrees observed on resolved domains (DESIGN C08) for the peak-region bearing",
    "the centre of mass of the whole footprint is biased by the periodic images of the tail: loose bound of 15 degrees, default halo only (observed <= 9.0 on 800 default-halo runs of the unchanged tree, compact and elongated windows)",
]
PLAIN_LIMIT = 15.0
MIN_NONTRIVIAL = {"quick": 40, "thorough": 900}
TIMEOUT = {"quick": 1500, "thorough": 7000}


def cases(tier, seed):
    out = [{"seed": seed, "idx": i, "kind": "unit"} for i in range(8 if tier == "quick" else 32)]
    lattice = [7.5 * k for k in range(48)]
    reps = 3 if tier == "quick" else 100
    i = 0
    for r in range(reps):
        for d in lattice:
            out.append({"seed": seed, "idx": i, "kind": "e2e", "wd": d, "_cost": 8})
            i += 1
    for k in range(48 if tier == "quick" else 6000):
        out.append({"seed": seed, "idx": i, "kind": "e2e", "wd": None, "_cost": 8})
        i += 1
    # elongated windows with the default halo
    for k in range(24 if tier == "quick" else 1200):
        out.append({"seed": seed, "idx": i, "kind": "e2e", "wd": None, "elong": True, "_cost": 16})
        i += 1
    return out


def json_copy(o):
    import json

    return json.loads(json.dumps(o))


def angdiff(a, b):
    return abs((a - b + 180.0) % 360.0 - 180.0)


def run_case(case):
    return unit(case) if case["kind"] == "unit" else e2e(case)


def unit(case):
    import numpy as np
    from bldfm.utils import compute_wind_fields as _cwf
    import bldfm

    from vlib import gen, purity

    compute_wind_fields = purity.guarded(_cwf, "compute_wind_fields")

    rng = gen.rng_for(case["seed"], "C08u", case["idx"])
    viol = []
    resid = {"unit_speed_rel": 0.0, "unit_components_rel": 0.0}
    n = 0
    for fn in (compute_wind_fields, bldfm.compute_wind_fields):
        for s, d, exp in ((3.0, 0.0, (0.0, -3.0)), (3.0, 90.0, (-3.0, 0.0)), (3.0, 180.0, (0.0, 3.0)), (3.0, 270.0, (3.0, 0.0)), (2.5, 360.0, (0.0, -2.5))):
            u, v = fn(s, d)
            n += 1
            if abs(u - exp[0]) > 1e-15 * s * 4 or abs(v - exp[1]) > 1e-15 * s * 4:
                viol.append({"what": "cardinal_direction", "speed": s, "wind_dir": d, "got": (float(u), float(v)), "expected": exp})
        for _ in range(400):
            s = float(rng.uniform(0.1, 30))
            d = float(rng.choice([rng.uniform(0, 360), rng.uniform(-720, 720), 7.5 * rng.integers(0, 48)]))
            u, v = fn(s, d)
            n += 1
            eu, ev = -s * math.sin(math.radians(d)), -s * math.cos(math.radians(d))
            e1 = abs(math.hypot(u, v) - s) / s
            e2 = max(abs(u - eu), abs(v - ev)) / s
            resid["unit_speed_rel"] = max(resid["unit_speed_rel"], e1)
            resid["unit_components_rel"] = max(resid["unit_components_rel"], e2)
            if e1 > 1e-12 or e2 > 1e-12:
                viol.append({"what": "wind_decomposition", "speed": s, "wind_dir": d, "got": (float(u), float(v)), "expected": (eu, ev)})
        # integer-typed inputs (YAML 'wind_speed: 2', 'wind_dir: 200'): same result as the float-typed call
        for _ in range(60):
            si, di = int(rng.integers(1, 15)), int(rng.integers(0, 360))
            for cast in (int, np.int64, np.int32, np.uint16, np.uint32, np.uint64):
                u, v = fn(cast(si), cast(di))
                n += 1
                eu, ev = -si * math.sin(math.radians(di)), -si * math.cos(math.radians(di))
                # numpy promotes 16-bit integers to float32: storage rounding of single precision is not a convention error
                if max(abs(float(u) - eu), abs(float(v) - ev)) > (1e-12 if cast is not np.uint16 else 1e-6) * si:
                    viol.append({"what": "wind_decomposition", "form": f"integer-typed ({cast.__name__})", "speed": si, "wind_dir": di,
                                 "got": (float(u), float(v)), "expected": (eu, ev)})
        # calm records: a speed of exactly zero (scalar, or entries of a series) decomposes into (0, 0) at any direction
        for zero in (0.0, 0, np.float64(0.0), np.float32(0.0)):
            for d in (0.0, 90.0, 137.5, 360.0, float(rng.uniform(0, 360))):
                u, v = fn(zero, d)
                n += 1
                if not (np.isfinite(u) and np.isfinite(v) and float(u) == 0.0 and float(v) == 0.0):
                    viol.append({"what": "wind_decomposition", "form": f"calm ({type(zero).__name__} zero)", "speed": 0.0, "wind_dir": d, "got": (float(u), float(v)), "expected": (0.0, 0.0)})
        ss = np.array([0.0, 2.5, 0.0, 4.0])
        d4 = rng.uniform(0, 360, 4)
        us, vs = fn(ss, d4)
        n += 1
        if not (np.all(np.isfinite(us)) and np.all(np.isfinite(vs)) and np.allclose(np.hypot(us, vs), ss, atol=1e-12)):
            viol.append({"what": "wind_decomposition", "form": "series with calm records", "speed": ss.tolist(), "got": (np.asarray(us).tolist(), np.asarray(vs).tolist())})
        # arrays
        dd = rng.uniform(0, 360, 50)
        uu, vv = fn(4.0, dd)
        if not (np.allclose(uu, -4.0 * np.sin(np.radians(dd)), atol=1e-12) and np.allclose(vv, -4.0 * np.cos(np.radians(dd)), atol=1e-12)):
            viol.append({"what": "wind_decomposition", "form": "array"})
    return {"evals": n, "nontrivial": True, "sig": f"unit|{case['idx']}", "buckets": {"unit": 1}, "resid": resid,
            "counters": {"unit_decompositions": n}, "violations": viol}


def e2e(case):
    import warnings

    import numpy as np
    import bldfm
    from bldfm.config_parser import parse_config_dict
    from vlib import gen

    rng = gen.rng_for(case["seed"], "C08", case["idx"])
    wd = float(case["wd"]) if case["wd"] is not None else float(rng.uniform(0, 360))
    closure = str(rng.choice(["MOST", "MOSTM", "CONSTANT", "OAAHOC"]))
    zm = float(rng.uniform(2.0, 20.0))
    oblong = bool(rng.random() < 0.5)
    nx = int(rng.integers(18, 29)) * 2
    ny = int(rng.integers(18, 29)) * 2 if oblong else nx
    elong = bool(case.get("elong"))
    if elong:
        # a clearly elongated window (a transect, a valley): aspect 3 .. 4.5, long side along x or y
        oblong = True
        short, aspect = int(rng.integers(15, 19)) * 2, float(rng.uniform(3.0, 4.5))
        long_ = int(short * aspect / 2) * 2
        nx, ny = (short, long_) if rng.random() < 0.5 else (long_, short)
    dx = float(zm * rng.uniform(0.7, 1.0))
    dy = float(zm * rng.uniform(0.7, 1.0)) if oblong else dx
    xmax, ymax = nx * dx, ny * dy
    xt, yt = (nx // 2) * dx, (ny // 2) * dy
    ref_lat, ref_lon = float(rng.uniform(-60, 60)), float(rng.uniform(-179, 179))
    if case["idx"] % 6 == 4:
        # reference origin a few metres west of the Greenwich meridian / of the antimeridian, or exactly on them: the tower lies across
        ref_lon = float(rng.choice([-10 ** rng.uniform(-6, -3.5), 180.0 - 10 ** rng.uniform(-6, -3.5), 0.0, 180.0, -180.0]))
    R = 6_371_000.0
    lat = ref_lat + math.degrees(yt / R)
    lon = ref_lon + math.degrees(xt / (R * math.cos(math.radians(ref_lat))))
    ws = float(rng.uniform(1.0, 10.0))
    int_typed = bool(rng.random() < 0.25)
    if int_typed:
        ws = int(rng.integers(2, 10))
        wd = int(round(wd)) % 360
    L = float(rng.choice([-1, 1]) * 10 ** rng.uniform(1.5, 4))
    forcing = "ustar" if closure == "OAAHOC" else str(rng.choice(["ustar", "z0"]))
    # directions as unwrapped series and -180..180 loggers give them: a full turn more or less is the same wind
    wd_given = wd
    if case["idx"] % 4 == 1 and not int_typed:
        wd_given = float(wd + 360.0 * int(rng.choice([-1, 1, 2])))
    met = {"wind_speed": ws, "wind_dir": wd_given, "mol": L}
    if forcing == "ustar":
        met["ustar"] = float(ws * rng.uniform(0.09, 0.15))
    else:
        met["z0"] = float(zm * 10 ** rng.uniform(-2.0, -1.1))
    halo = None if rng.random() < 0.6 else float(rng.uniform(0.5, 1.2) * max(xmax, ymax))
    if elong:
        halo = None
    nz = int(rng.integers(8, 21))
    # every fourth case asks for several output levels (the measurement node among them, any order) or for the full column: the
    # slice of the measurement node is the footprint
    lev_kind = ["default", "default", "default", "output_levels", "default", "default", "default", "full_output"][case["idx"] % 8]
    out_levels = None
    if lev_kind == "output_levels":
        out_levels = [int(i) for i in rng.permutation([nz, int(rng.integers(nz // 2, nz)), int(rng.integers(1, nz // 2))][: int(rng.integers(2, 4))])]
    raw = {"domain": {"nx": nx, "ny": ny, "xmax": xmax, "ymax": ymax, "nz": nz, "ref_lat": ref_lat, "ref_lon": ref_lon, "halo": halo,
                      "modes": [512, 512]},
           "towers": [{"name": "T", "lat": lat, "lon": lon, "z_m": zm}], "met": met,
           "solver": {"closure": closure, "footprint": True, "precision": str(rng.choice(["single", "double"]))}}
    if out_levels is not None:
        raw["domain"]["output_levels"] = out_levels
    elif lev_kind == "full_output":
        raw["domain"]["full_output"] = True
    desc = dict(wind_dir=wd, wind_dir_as_given=wd_given, closure=closure, zm=zm, nx=nx, ny=ny, dx=dx, dy=dy, ws=ws, L=L, forcing=forcing, halo=halo, nz=nz,
                ref=(ref_lat, ref_lon), precision=raw["solver"]["precision"], levels=out_levels or lev_kind)
    if case["idx"] % 5 == 2:
        # the window was first laid out around another origin (a kilometre or so away) and then moved, the documented way:
        # dataclasses.replace on the parsed configuration, with the same tower objects
        import dataclasses as _dc

        raw0 = json_copy(raw)
        raw0["domain"]["ref_lat"] = ref_lat + float(rng.uniform(-0.01, 0.01))
        raw0["domain"]["ref_lon"] = ref_lon + float(rng.uniform(-0.01, 0.01))
        cfg0 = parse_config_dict(raw0)
        cfg = _dc.replace(cfg0, domain=_dc.replace(cfg0.domain, ref_lat=ref_lat, ref_lon=ref_lon))
        desc["history"] = "configuration parsed around another origin, then re-centred with dataclasses.replace"
    else:
        cfg = parse_config_dict(raw)
    tw = cfg.towers[0]
    if abs(tw.x - xt) > 1e-6 or abs(tw.y - yt) > 1e-6:
        return {"evals": 1, "nontrivial": True, "sig": f"{case['idx']}", "violations": [
            {"what": "tower_local_coordinates", "got": (tw.x, tw.y), "expected": (xt, yt), "case": desc}]}
    # conditioning guard on the profiles this run will use
    from bldfm.pbl_model import vertical_profiles
    from bldfm.utils import compute_wind_fields

    with warnings.catch_warnings():
        warnings.simplefilter("ignore")
        with np.errstate(all="ignore"):
            u, v = compute_wind_fields(ws, wd)
            try:
                z, prof = vertical_profiles(nz, zm, (u, v), mol=L, closure=closure, **({"ustar": met["ustar"]} if forcing == "ustar" else {"z0": met["z0"]}))
            except Exception:
                return {"evals": 0, "nontrivial": False, "skipped": "profiles undefined for this draw"}
    if not (len(z) > nz and np.all(np.isfinite(z)) and np.all(np.diff(z) > 0) and np.all(np.asarray(prof[4]) > 0) and z[0] < 0.3 * zm):
        return {"evals": 0, "nontrivial": False, "skipped": "derived roughness length not below z_m"}
    heff = max(xmax, ymax) if halo is None else halo
    px, py = int(heff / dx), int(heff / dy)
    kx, ky, _, _ = gen.wavenumbers(nx, ny, dx, dy, px, py, (512, 512))
    G = gen.growth(z, prof, kx, ky)
    if G > 18.0:
        return {"evals": 0, "nontrivial": False, "skipped": "conditioning guard G > 18", "buckets": {"skip:G": 1}}
    if nx + 2 * px > 512 or ny + 2 * py > 512:
        return {"evals": 0, "nontrivial": False, "skipped": "default modes would truncate"}
    # the same tower and forcing as a direction sweep through the timeseries driver: scalar speed / ustar / stability, a list of
    # wind directions (step 0 is the direction under test)
    sweep = None
    sweep_driver = "run_bldfm_timeseries"
    if case["idx"] % 3 == 0:
        dirs = [wd, (wd + 100.0) % 360.0, (wd + 215.0) % 360.0]
        slow = case["idx"] % 6 == 3
        if slow:
            # a slowly veering wind: 0.4 degrees per record ending on the direction under test; every record is its own footprint, so
            # the last one must be the footprint of a single run for that direction (the peak-region bearing cannot resolve 1.2 degrees)
            dirs = [(wd - 1.2) % 360.0, (wd - 0.8) % 360.0, (wd - 0.4) % 360.0, wd]
        raw2 = json_copy(raw)
        raw2["met"]["wind_dir"] = dirs
        if forcing == "z0" and not slow and case["idx"] % 2 == 0:
            # a light-wind record inside the sweep (0.42 m/s has a direction like any other wind)
            raw2["met"]["wind_speed"] = [ws if k_ != 1 else 0.42 for k_ in range(len(dirs))]
            desc["sweep_speeds"] = raw2["met"]["wind_speed"]
        cached = case["idx"] % 12 in (0, 9)
        if cached:   # with the result cache switched on, and run twice: the second series is served from the entries of the first
            raw2["parallel"] = {"use_cache": True}
        cfg2 = parse_config_dict(raw2)
        with warnings.catch_warnings():
            warnings.simplefilter("ignore")
            with np.errstate(all="ignore"):
                if case["idx"] % 12 == 6:
                    # the same sweep through the parallel driver, steps shared between two workers
                    series = bldfm.run_bldfm_parallel(cfg2, max_workers=2, parallel_over="time")[cfg2.towers[0].name]
                    sweep_driver = "run_bldfm_parallel(time, 2 workers)"
                else:
                    series = bldfm.run_bldfm_timeseries(cfg2, cfg2.towers[0])
                if cached:
                    series = bldfm.run_bldfm_timeseries(cfg2, cfg2.towers[0])
                    import shutil as _sh

                    _sh.rmtree(".bldfm_cache", ignore_errors=True)
        sweep = (dirs, series)
    # every other case: the same configuration is first run as a concentration (dispersion) field in the same process - a user who
    # looks at the plume and then asks for the footprint
    plume_first = case["idx"] % 2 == 1
    if plume_first:
        raw3 = json_copy(raw)
        raw3.setdefault("solver", {})["footprint"] = False
        cfg3 = parse_config_dict(raw3)
        with warnings.catch_warnings():
            warnings.simplefilter("ignore")
            with np.errstate(all="ignore"):
                bldfm.run_bldfm_single(cfg3, cfg3.towers[0], met_index=0)
    with warnings.catch_warnings():
        warnings.simplefilter("ignore")
        with np.errstate(all="ignore"):
            res = bldfm.run_bldfm_single(cfg, tw, met_index=0)
    f = np.asarray(res["flx"], dtype=float)
    X, Y = np.asarray(res["grid"][0]), np.asarray(res["grid"][1])
    if lev_kind != "default":
        # the slice of the measurement node (its height is the tower's)
        kz = out_levels.index(nz) if out_levels is not None else nz
        if f.ndim != 3 or f.shape[0] <= kz or abs(float(np.asarray(res["grid"][2])[kz].flat[0]) - zm) > 1e-9 * zm:
            return {"evals": 1, "nontrivial": True, "sig": f"{case['idx']}", "violations": [
                {"what": "slice_of_the_measurement_node_missing_or_mislabelled", "shape": f.shape, "levels": out_levels or "full_output", "case": desc}]}
        f, X, Y = f[kz], X[kz], Y[kz]
    if f.shape != (ny, nx) or not np.all(np.isfinite(f)):
        return {"evals": 1, "nontrivial": True, "sig": f"{case['idx']}", "violations": [
            {"what": "footprint_not_finite_or_wrong_shape", "shape": f.shape, "case": desc}]}
    rx, ry = X - tw.x, Y - tw.y
    rad = min(tw.x, xmax - dx - tw.x, tw.y, ymax - dy - tw.y)
    disc = np.hypot(rx, ry) <= rad
    fm = float(f[disc].max())
    region = disc & (f >= 0.25 * fm)
    ncell = int(region.sum())
    jpk, ipk = np.unravel_index(int(np.argmax(np.where(disc, f, -np.inf))), f.shape)
    if ncell < 12:
        return {"evals": 1, "nontrivial": False, "skipped": "peak region smaller than 12 cells"}
    if np.hypot(rx[jpk, ipk], ry[jpk, ipk]) > 0.8 * rad:
        return {"evals": 1, "nontrivial": False, "skipped": "peak too close to the disc boundary (footprint longer than the domain)"}
    w = f[region]
    bx, by = float(np.sum(w * rx[region])), float(np.sum(w * ry[region]))
    bearing = math.degrees(math.atan2(bx, by)) % 360.0
    err = angdiff(bearing, wd)
    viol = []
    if err > 5.0:
        viol.append({"what": "footprint_not_upwind_of_tower", "bearing_deg": bearing, "wind_dir": wd, "error_deg": err, "peak_cells": ncell, "G": G, "case": desc})
    # the centre of mass of the whole returned footprint (what the property names).  It is biased by the periodic images of the tail
    # (DESIGN C08), so it only carries a loose bound - but a footprint whose tail re-enters beside the tower through a halo that is
    # thinner than the window is long shows up here and not in the peak region
    wpos = np.clip(f, 0.0, None)
    err_all = None
    if float(wpos.sum()) > 0:
        b_all = math.degrees(math.atan2(float(np.sum(wpos * rx)), float(np.sum(wpos * ry)))) % 360.0
        err_all = angdiff(b_all, wd)
        # (judged with the default halo only: with a caller-chosen narrower halo the wrap-around bias is the caller's trade-off;
        # calibration on the unchanged tree, 1169 runs: default halo <= 9.0 deg, explicit halos of 0.5-1.2 window lengths up to 15.4)
        if halo is None and err_all > PLAIN_LIMIT:
            viol.append({"what": "centre_of_mass_of_footprint_not_upwind_of_tower", "bearing_deg": b_all, "wind_dir": wd, "error_deg": err_all, "G": G, "case": desc})
    nsweep = 0
    if sweep is not None and lev_kind != "default":
        # the series carries the same level request: its slice of the measurement node
        try:
            sweep = (sweep[0], [dict(r_, flx=np.asarray(r_["flx"])[kz], grid=tuple(np.asarray(g_)[kz] for g_ in r_["grid"])) for r_ in sweep[1]])
        except Exception as ex_:  # noqa
            viol.append({"what": "slice_of_the_measurement_node_missing_or_mislabelled", "driver": "run_bldfm_timeseries", "exc": repr(ex_)[:200], "case": desc})
            sweep = None
    if sweep is not None and len(sweep[0]) == 4:
        fl = np.asarray(sweep[1][-1]["flx"], dtype=float)
        e_sl = float(np.max(np.abs(fl - f))) / (float(np.max(np.abs(f))) or 1.0) if fl.shape == f.shape else float("inf")
        if not e_sl <= (1e-9 if desc["precision"] == "double" else 1e-5):
            viol.append({"what": "footprint_of_a_series_step_is_not_that_steps_footprint", "driver": "run_bldfm_timeseries", "step": 3,
                         "rel": e_sl, "directions": sweep[0], "case": desc})
    if sweep is not None:
        for k, (d_k, r_k) in enumerate(zip(*sweep)):
            fk = np.asarray(r_k["flx"], dtype=float)
            Xk, Yk = np.asarray(r_k["grid"][0]), np.asarray(r_k["grid"][1])
            if Xk.shape != X.shape or not (np.array_equal(Xk, X) and np.array_equal(Yk, Y)):
                viol.append({"what": "grid_of_a_series_step_differs_from_the_single_run_grid", "driver": "run_bldfm_timeseries", "step": k,
                             "shapes": (Xk.shape, X.shape), "case": desc})
                continue
            fmk = float(fk[disc].max())
            reg = disc & (fk >= 0.25 * fmk)
            if int(reg.sum()) < 12:
                continue
            bk = math.degrees(math.atan2(float(np.sum(fk[reg] * rx[reg])), float(np.sum(fk[reg] * ry[reg])))) % 360.0
            nsweep += 1
            if angdiff(bk, d_k) > 5.0:
                viol.append({"what": "footprint_not_upwind_of_tower", "driver": sweep_driver, "step": k, "bearing_deg": bk,
                             "wind_dir": d_k, "error_deg": angdiff(bk, d_k), "directions": sweep[0], "case": desc})
    discr = min(angdiff(wd, 0.0), angdiff(wd, 180.0)) > 2.5
    b = {"met_values:int" if int_typed else "met_values:float": 1, **({f"sweep:{sweep_driver}": 1} if sweep is not None else {}), f"closure:{closure}": 1, "oblong" if oblong else "square": 1, f"forcing:{forcing}": 1, "stable" if L > 0 else "unstable": 1,
         f"halo:{'default' if halo is None else 'explicit'}": 1, f"levels:{lev_kind}": 1, "elongated" if elong else "compact": 1, f"octant:{int(wd // 45) % 8}": 1, f"prec:{desc['precision']}": 1}
    return {"evals": 1, "nontrivial": bool(discr), "sig": f"{wd:.3f}|{closure}|{nx}x{ny}|{case['idx']}", "buckets": b,
            "resid": {"bearing_error_deg": err, "centre_of_mass_bearing_error_deg_default_halo": err_all if halo is None else None,
                      "centre_of_mass_bearing_error_deg_explicit_halo_not_judged": err_all if halo is not None else None}, "counters": {"single_runs": 1, "peak_region_cells": ncell, "timeseries_steps_checked": nsweep}, "violations": viol,
            "sample": dict(desc, bearing=bearing, error_deg=err, peak_cells=ncell, G=G)}
