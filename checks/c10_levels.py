"""C10 - each returned slice is the solution at the height the grid reports for it.

Relation monitor: every multi-level call is paired with the single-level calls
for each requested level and with the full-column call of the same inputs.
"""

ID = "C10"
LEVEL = "exploration"
RULE = (
    "seeded random set-ups (nz 3..64 nodes) x level selections {scalar, single-element list, ascending, descending, shuffled, with and "
    "without the top node, full column, ndarray / list / numpy integer types} x footprint/dispersion x numeric/analytic (constant "
    "profiles) x both precisions; non-trivial = selection with >= 2 levels; distinct = distinct (idx, selection kind)"
)
ASSUMPTIONS = [
    "slices are compared at 1e-13 (double) / 2e-6 (single) of the slice maximum: the spectral coefficients are computed by the same "
    "arithmetic per level, only the batched inverse FFT may round differently; bitwise-equal slices are counted",
    "duplicated level indices and tuples are outside 'any subset, list or array' and are not generated",
]
MIN_NONTRIVIAL = {"quick": 150, "thorough": 6400}
TIMEOUT = {"quick": 900, "thorough": 7000}
T = {"double": 1e-13, "single": 2e-6}


def cases(tier, seed):
    n = 240 if tier == "quick" else 43200
    kinds = ["scalar", "single", "ascending", "descending", "shuffled", "with_top_first", "full", "full_reversed"]
    out_ = [{"seed": seed, "idx": i, "sel": kinds[i % len(kinds)]} for i in range(n)]
    # the configuration-driven drivers pass output_levels / full_output through: every step of a series carries its own heights
    out_ += [{"seed": seed, "idx": i, "kind": "iface", "_cost": 3} for i in range(16 if tier == "quick" else 320)]
    if tier == "thorough":
        out_.append({"seed": seed, "kind": "repo_tests", "_cost": 40})
    return out_


def run_case(case):
    if case.get("kind") == "repo_tests":
        from vlib import hooks

        return hooks.run_repo_tests(ID, ['test_integration.py', 'test_interface.py', 'test_io.py'])
    import numpy as np
    from vlib import gen, solve

    if case.get("kind") == "iface":
        return iface_case(case)
    rng = gen.rng_for(case["seed"], "C10", case["idx"])
    St, _ = gen.draw_setup(rng, even=bool(rng.random() < 0.85), nzmin=2, nzmax=int(rng.choice([8, 24, 63])), nmax=16)
    if St is None:
        return {"evals": 0, "nontrivial": False, "skipped": "no draw inside the conditioning guard"}
    nx, ny = St["nx"], St["ny"]
    z = St["z"]
    nz = len(z)
    prec = "double" if rng.random() < 0.7 else "single"
    analytic = bool(St["pdesc"]["kind"] == "constant" and rng.random() < 0.5)
    fp = bool(rng.random() < 0.5)
    desc = gen.describe(St)
    sel = case["sel"]
    k = int(rng.integers(2, min(6, nz) + 1))
    if sel == "scalar":
        idx = [int(rng.integers(nz))]
        levels = idx[0]
    elif sel == "single":
        idx = [int(rng.integers(nz))]
        levels = list(idx)
    elif sel == "ascending":
        idx = sorted(int(i) for i in rng.choice(nz, size=k, replace=False))
        levels = list(idx)
    elif sel == "descending":
        idx = sorted((int(i) for i in rng.choice(nz, size=k, replace=False)), reverse=True)
        levels = list(idx)
    elif sel == "shuffled":
        idx = [int(i) for i in rng.permutation(nz)[:k]]
        levels = list(idx)
    elif sel == "with_top_first":
        idx = [nz - 1] + [int(i) for i in rng.permutation(nz - 1)[: k - 1]]
        levels = list(idx)
    elif sel == "full":
        idx = list(range(nz))
        levels = list(idx)
    else:
        idx = list(range(nz))[::-1]
        levels = list(idx)
    form = "python"
    if sel not in ("scalar",) and rng.random() < 0.5:
        levels = np.array(idx, dtype=rng.choice([np.int64, np.int32, np.intp, np.uint8, np.uint32, np.uint64]))  # any integer dtype an index array may have
        form = "ndarray"
    elif sel == "scalar" and rng.random() < 0.5:
        levels = np.int64(idx[0])
        form = "np.int64"
    q0, skind = gen.make_source(rng, ny, nx)
    mp = (float(rng.integers(nx)) * St["dx"], float(rng.integers(ny)) * St["dy"]) if (fp or rng.random() < 0.4) else (0.0, 0.0)
    bg = 0.0 if fp else float(rng.choice([0.0, 4.0]))
    kw = dict(footprint=fp, analytic=analytic, precision=prec, meas_pt=mp, srf_bg_conc=bg)
    viol, resid = [], {}
    counters = {"solver_calls": 0, "slices_compared": 0, "slices_bitwise": 0}
    ctx = dict(levels=idx, form=form, selection=sel, footprint=fp, analytic=analytic, precision=prec, setup=desc)
    nl = len(idx)
    try:
        counters["solver_calls"] += 1
        g, c, f = solve.solve(St, q0, levels, **kw)
    except Exception as e:  # noqa
        viol.append(dict(what="valid_level_selection_raises", exc=repr(e)[:300], **ctx))
        return {"evals": 1, "nontrivial": nl >= 2, "sig": f"{case['idx']}|{sel}", "violations": viol, "counters": counters,
                "buckets": {f"sel:{sel}": 1}}
    c, f = solve.as3d(c, nl), solve.as3d(f, nl)
    Z = np.asarray(g[2])
    Zs = Z.reshape(nl, -1)
    # returned heights: slice k is labelled with z[levels[k]]
    for kk, L in enumerate(idx):
        if not np.all(Zs[kk] == z[L]):
            viol.append(dict(what="returned_height_is_not_the_requested_level", slice=kk, level=L, got=float(Zs[kk].flat[0]), expected=float(z[L]), **ctx))
    if c.shape != (nl, ny, nx) or f.shape != (nl, ny, nx):
        viol.append(dict(what="multi_level_shape", got=c.shape, **ctx))
    else:
        # full column of the same inputs
        counters["solver_calls"] += 1
        _, cf, ff = solve.solve(St, q0, list(range(nz)), **kw)
        cf, ff = solve.as3d(cf, nz), solve.as3d(ff, nz)
        singles = idx if nl <= 6 else [idx[i] for i in sorted(rng.choice(nl, size=6, replace=False))]
        for kk, L in enumerate(idx):
            refs = [("full_column", cf[L], ff[L])]
            if L in singles:
                counters["solver_calls"] += 1
                _, c1, f1 = solve.solve(St, q0, L, **kw)
                refs.append(("single_level", np.asarray(c1), np.asarray(f1)))
            for nm, rc, rf in refs:
                for fld, a, b_ in (("conc", c[kk], rc), ("flx", f[kk], rf)):
                    counters["slices_compared"] += 1
                    if np.array_equal(a, b_):
                        counters["slices_bitwise"] += 1
                    scale = max(float(np.max(np.abs(b_))), abs(bg), 1e-300)
                    e = float(np.max(np.abs(a - b_))) / scale
                    key = f"slice_vs_{nm}_{prec}"
                    resid[key] = max(resid.get(key, 0.0), e)
                    if not e <= T[prec]:
                        viol.append(dict(what="slice_is_not_the_solution_at_its_level", reference=nm, field=fld, slice=kk, level=L, rel=e, **ctx))
    b = {f"sel:{sel}": 1, f"form:{form}": 1, f"prec:{prec}": 1, "analytic" if analytic else "numeric": 1,
         "mode:footprint" if fp else "mode:dispersion": 1, f"nz:{'<=8' if nz <= 9 else '<=24' if nz <= 25 else '>24'}": 1,
         f"halo:{St['halo_class']}": 1}
    return {"evals": counters["slices_compared"] + nl, "nontrivial": nl >= 2, "sig": f"{case['idx']}|{sel}", "buckets": b, "resid": resid,
            "counters": counters, "violations": viol, "sample": {"setup": desc, "levels": idx, "form": form, "footprint": fp, "analytic": analytic}}


def iface_case(case):
    """run_bldfm_timeseries / run_bldfm_single with output_levels or full_output: slice k of step i is the solution at the height the
    grid reports for it - the heights of step i's own column (they change with the roughness length derived per step)."""
    import warnings

    import numpy as np
    import bldfm
    from bldfm.config_parser import parse_config_dict
    from bldfm.pbl_model import vertical_profiles
    from bldfm.utils import compute_wind_fields
    from vlib import gen

    rng = gen.rng_for(case["seed"], "C10iface", case["idx"])
    ns = int(rng.integers(2, 5))
    nz = int(rng.integers(4, 10))
    zm = float(rng.uniform(3, 10))
    full = bool(rng.random() < 0.3)
    # nodes 0 .. nz + 1 always exist (the column continues above the measurement node nz up to twice the tower height)
    lv = list(range(nz + 1)) if full else [int(v) for v in rng.permutation(nz + 2)[: int(rng.integers(2, 4))]]
    forcing = str(rng.choice(["ustar_series", "ustar_series", "z0"]))
    met = {"wind_speed": [float(rng.uniform(2.5, 6)) for _ in range(ns)], "wind_dir": [float(rng.uniform(0, 360)) for _ in range(ns)],
           "mol": [float(rng.choice([-1, 1]) * rng.uniform(80, 500)) for _ in range(ns)]}
    if forcing == "z0":
        met["z0"] = float(rng.uniform(0.02, 0.15))
    else:
        met["ustar"] = [float(w * rng.uniform(0.07, 0.11)) for w in met["wind_speed"]]
    dom = {"nx": 12, "ny": 10, "xmax": 120.0, "ymax": 80.0, "nz": nz, "modes": [12, 10], "halo": 20.0, "ref_lat": 50.0, "ref_lon": 11.0}
    if full:
        dom["full_output"] = True
    else:
        dom["output_levels"] = lv
    fp = bool(rng.random() < 0.6)
    raw = {"domain": dom, "towers": [{"name": "T", "lat": 50.0003, "lon": 11.0006, "z_m": zm}], "met": met,
           "solver": {"closure": "MOST", "footprint": fp, "precision": "double"}}
    viol = []
    counters = {"series_runs": 0, "slices_compared": 0}
    ctx = dict(levels=lv, full_output=full, steps=ns, forcing=forcing, footprint=fp, nz=nz, zm=zm)
    with warnings.catch_warnings():
        warnings.simplefilter("ignore")
        with np.errstate(all="ignore"):
            try:
                cfg = parse_config_dict(raw)
                series = bldfm.run_bldfm_timeseries(cfg, cfg.towers[0])
            except Exception as e:  # noqa
                return {"evals": 0, "nontrivial": False, "skipped": f"configuration outside the model's domain ({type(e).__name__})"}
            counters["series_runs"] += 1
            for i, r in enumerate(series):
                u, v = compute_wind_fields(met["wind_speed"][i], met["wind_dir"][i])
                kw = {"z0": met["z0"]} if forcing == "z0" else {"ustar": met["ustar"][i]}
                z, _ = vertical_profiles(n=nz, meas_height=zm, wind=(u, v), mol=met["mol"][i], closure="MOST", **kw)
                z = np.asarray(z, dtype=float)
                Z = np.asarray(r["grid"][2])
                c, f = np.asarray(r["conc"]), np.asarray(r["flx"])
                if Z.shape[0] != len(lv) or c.shape[0] != len(lv):
                    viol.append(dict(what="height_coordinate_is_not_the_requested_levels_height", step=i, shapes=(Z.shape, c.shape), **ctx))
                    continue
                if not np.array_equal(Z[:, 0, 0], z[lv]):
                    viol.append(dict(what="height_coordinate_is_not_the_requested_levels_height", step=i, got=Z[:, 0, 0].tolist(),
                                     expected=z[lv].tolist(), **ctx))
                # slice k against the single-level run of the same step
                k = int(rng.integers(len(lv)))
                raw1 = {**raw, "domain": {kk: vv for kk, vv in dom.items() if kk not in ("full_output", "output_levels")}}
                raw1["domain"]["output_levels"] = [lv[k]]
                cfg1 = parse_config_dict(raw1)
                r1 = bldfm.run_bldfm_single(cfg1, cfg1.towers[0], met_index=i)
                counters["slices_compared"] += 1
                c1, f1 = np.asarray(r1["conc"]), np.asarray(r1["flx"])
                c1, f1 = c1.reshape(c1.shape[-2:]), f1.reshape(f1.shape[-2:])
                e = max(float(np.max(np.abs(c[k] - c1))) / (float(np.max(np.abs(c1))) or 1.0), float(np.max(np.abs(f[k] - f1))) / (float(np.max(np.abs(f1))) or 1.0))
                if not e <= 1e-12:
                    viol.append(dict(what="slice_is_not_the_solution_at_its_level", step=i, level=lv[k], rel=e, driver="run_bldfm_timeseries", **ctx))
    return {"evals": counters["slices_compared"], "nontrivial": True, "sig": f"iface|{case['idx']}", "buckets": {"interface_series": 1, f"iface_forcing:{forcing}": 1},
            "counters": counters, "violations": viol, "sample": ctx}
