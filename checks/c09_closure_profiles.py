"""C09 - closure profiles are self-consistent with similarity theory and the grid.

Reference-model monitor: the harness's own Businger-Dyer functions, log-law and
grid mapping are evaluated next to every observed vertical_profiles call.
"""

import math

ID = "C09"
LEVEL = "exploration"
RULE = (
    "seeded random (n in 1..64, z_m in 1..50, wind vector any direction 0.5..15 m/s, ustar or z0 forcing, L of both signs from |L|=5 to the "
    "neutral limit 1e9, Pr in 0.5..1.5, tke) x closures MOST/MOSTM/CONSTANT/OAAHOC x grid parameters {default, domain_height, stretch}; "
    "plus stability-function cases (quadrature of (phi_m-1)/t, continuity at 0, reference-model copies).  non-trivial = accepted draw "
    "(0 < z0 < z_m, ustar > 0); distinct = distinct (closure, forcing, n, rounded parameters)"
)
ASSUMPTIONS = [
    "similarity functions: Businger-Dyer (phi_m=(1-16x)^-1/4, phi_c=(1-16x)^-1/2 unstable; 1+5x stable), kappa=0.4",
    "MOSTM switches the along-wind horizontal diffusivity off by design: strict positivity is asserted for Kz and for the isotropic closures",
]
MIN_NONTRIVIAL = {"quick": 300, "thorough": 19200}
TIMEOUT = {"quick": 600, "thorough": 7000}
KAP = 0.4
CL, CM, CH = 0.845, 0.0856, 0.204


def cases(tier, seed):
    n = 640 if tier == "quick" else 102400
    out = [{"seed": seed, "idx": i, "kind": "profiles"} for i in range(n)]
    out += [{"seed": seed, "idx": i, "kind": "stability"} for i in range(16 if tier == "quick" else 64)]
    out_ = out
    if tier == "thorough":
        out_.append({"seed": seed, "kind": "repo_tests", "_cost": 40})
    return out_


def run_case(case):
    if case.get("kind") == "repo_tests":
        from vlib import hooks

        return hooks.run_repo_tests(ID, ['test_pbl_model.py', 'test_interface.py', 'test_integration.py'])
    if case["kind"] == "stability":
        return run_stability(case)
    return run_profiles(case)


PARAMS = ("closure", "n", "zm", "ws", "wd", "L", "prsc", "forcing", "gridp", "tke", "ufac", "z0rat", "zmxfac", "hfac")


def draw(rng, only=None, P=None):
    """Primitive draws of one vertical_profiles call; with `only`, re-draw just that one (a sibling call that differs in one argument)."""
    P = dict(P or {})

    def want(k):
        return only is None or only == k

    if want("closure"):
        P["closure"] = str(rng.choice(["MOST", "MOSTM", "CONSTANT", "OAAHOC"]))
    if want("n"):
        P["n"] = int(rng.choice([1, 2, 3, 5, 8, 16, 33, 64])) if rng.random() < 0.5 else int(rng.integers(1, 65))
    if want("zm"):
        P["zm"] = float(10 ** rng.uniform(0, math.log10(50)))
    if want("ws"):
        P["ws"] = float(rng.uniform(0.5, 15))
    if want("wd"):
        P["wd"] = float(rng.choice([0, 90, 180, 270, rng.uniform(0, 360)]))
    if want("L"):
        P["L"] = float(rng.choice([-1, 1]) * 10 ** rng.choice([rng.uniform(math.log10(5), 4), rng.uniform(4, 9), 9.0]))
    if want("prsc"):
        P["prsc"] = float(rng.choice([1.0, rng.uniform(0.5, 1.5)]))
    if want("forcing"):
        P["forcing"] = str(rng.choice(["ustar", "z0"]))
    if want("gridp"):
        P["gridp"] = str(rng.choice(["default", "default", "domain_height", "stretch", "both"]))
    if want("tke"):
        P["tke"] = float(rng.uniform(0.2, 3.0))
    if want("ufac"):
        P["ufac"] = float(rng.uniform(0.03, 0.2))
    if want("z0rat"):
        P["z0rat"] = float(10 ** rng.uniform(-4, math.log10(0.3)))
    if want("zmxfac"):
        P["zmxfac"] = float(rng.uniform(1.05, 12.0))
    if want("hfac"):
        P["hfac"] = float(rng.uniform(0.5, 8.0))
    return P


def run_profiles(case):
    """One base call and two sibling calls in the same process, each differing from the base in exactly one argument
    (a memo keyed on a proper subset of the arguments would hand a sibling the base's profiles); every call is judged
    against the harness's own formulas for its own arguments."""
    from vlib import gen

    rng = gen.rng_for(case["seed"], "C09", case["idx"])
    P = draw(rng)
    out = run_one(case, P, case["idx"] % 4 == 0)
    nsib = 0
    for _ in range(2):
        k = str(rng.choice(["n", "zm", "ws", "wd", "L", "prsc", "closure", "ufac", "z0rat", "zmxfac", "hfac", "tke", "forcing"]))
        P2 = draw(rng, only=k, P=P)
        r2 = run_one(case, P2, False, roundtrip=False)
        if not r2.get("nontrivial"):
            continue
        nsib += 1
        for v in r2.get("violations", []):
            v["sibling_differs_in"] = k
        if not out.get("nontrivial"):
            out = r2
            continue
        out["evals"] += r2["evals"]
        out["violations"] = out.get("violations", []) + r2.get("violations", [])
        for k_, v_ in r2.get("resid", {}).items():
            out["resid"][k_] = max(out["resid"].get(k_, 0.0), v_)
        for k_, v_ in r2.get("counters", {}).items():
            out["counters"][k_] = out["counters"].get(k_, 0) + v_
        out["buckets"][f"sibling_differs_in:{k}"] = out["buckets"].get(f"sibling_differs_in:{k}", 0) + 1
    if out.get("nontrivial"):
        out["counters"]["sibling_calls"] = nsib
    return out


def run_one(case, P, do_int, roundtrip=True):
    import warnings

    import numpy as np
    from bldfm import pbl_model as _pm
    from vlib import gen, purity

    vertical_profiles = purity.guarded(_pm.vertical_profiles, "vertical_profiles")
    viol = []
    resid = {}
    counters = {"vertical_profiles_calls": 0, "roundtrips": 0}

    closure, n, zm, ws, wd, L, prsc, gridp = (P[k] for k in ("closure", "n", "zm", "ws", "wd", "L", "prsc", "gridp"))
    um, vm = ws * math.cos(math.radians(wd)), ws * math.sin(math.radians(wd))
    forcing = "ustar" if closure == "OAAHOC" else P["forcing"]
    kw = dict(mol=L, prsc=prsc, closure=closure)
    tke = None
    if closure == "OAAHOC":
        tke = P["tke"]
        kw["tke"] = tke
        if case["idx"] % 4 == 2:
            # the argument left out: the documented default is a turbulent kinetic energy of 1.0 m2/s2
            tke = 1.0
            del kw["tke"]
    psi_zm = float(gen.psi_m(zm / L))
    if forcing == "ustar":
        ustar = float(ws * P["ufac"])
        kw["ustar"] = ustar
        if closure == "OAAHOC":
            z0 = zm * math.exp(-CM * CL * ws * math.sqrt(tke) / ustar**2)
        else:
            z0 = zm * math.exp(-KAP * ws / ustar + psi_zm)
    else:
        z0 = float(zm * P["z0rat"])
        kw["z0"] = z0
        den = math.log(zm / z0) + psi_zm
        ustar = ws * KAP / den if den > 0 else -1.0
    if not (1e-12 * zm < z0 < 0.9 * zm) or not (ustar > 1e-4):
        return {"evals": 0, "nontrivial": False, "skipped": "derived z0 not below z_m or ustar not positive"}
    h = 2 * zm
    zmx = 2 * zm
    if gridp in ("domain_height", "both"):
        zmx = float(zm * P["zmxfac"])
        kw["domain_height"] = zmx
    if gridp in ("stretch", "both"):
        h = float(zm * P["hfac"])
        kw["stretch"] = h

    with warnings.catch_warnings():
        warnings.simplefilter("ignore")
        with np.errstate(all="ignore"):
            # the wind vector as a tuple, a list or the caller's own float64 array (kept and compared afterwards)
            wform = ["tuple", "ndarray", "list", "ndarray_view"][case["idx"] % 4]
            wind_arg = {"tuple": (um, vm), "list": [um, vm], "ndarray": np.array([um, vm]),
                        "ndarray_view": np.array([um, 0.0, vm, 0.0])[::2]}[wform]
            z, (u, v, Kx, Ky, Kz) = vertical_profiles(n, zm, wind_arg, **kw)
    if case["idx"] % 3 == 1:
        # the same call from a caller that escalates warnings and floating-point flags to errors (python -W error, np.seterr(all="raise")):
        # it gets the same profiles, not an exception
        try:
            with warnings.catch_warnings():
                warnings.simplefilter("error")
                with np.errstate(all="raise"):
                    zs_, ps_ = vertical_profiles(n, zm, (um, vm), **kw)
            counters["calls_under_escalated_warnings"] = counters.get("calls_under_escalated_warnings", 0) + 1
            if not (np.array_equal(np.asarray(zs_), np.asarray(z), equal_nan=True) and all(np.array_equal(np.asarray(a_), np.asarray(b_), equal_nan=True) for a_, b_ in zip(ps_, (u, v, Kx, Ky, Kz)))):
                viol.append(dict(what="profiles_depend_on_the_callers_warning_settings", closure=closure, L=L, zm=zm))
        except Exception as ex_:  # noqa
            viol.append(dict(what="call_fails_for_a_caller_that_escalates_numerical_warnings", exc=f"{type(ex_).__name__}: {str(ex_)[:160]}", closure=closure, L=L, zm=zm,
                             n=n, forcing=forcing, grid=gridp))
    counters["vertical_profiles_calls"] += 1
    if not (float(wind_arg[0]) == um and float(wind_arg[1]) == vm):
        viol.append(dict(what="wind_argument_modified_by_the_call", form=wform, before=(um, vm), after=(float(wind_arg[0]), float(wind_arg[1])),
                         closure=closure))
    z, u, v, Kx, Ky, Kz = [np.asarray(a, dtype=float) for a in (z, u, v, Kx, Ky, Kz)]
    ctx = dict(closure=closure, n=n, zm=zm, wind=(um, vm), forcing=forcing, ustar=ustar, z0=z0, L=L, prsc=prsc, tke=tke, grid=gridp,
               domain_height=kw.get("domain_height"), stretch=kw.get("stretch"))

    def bad(what, **d):
        viol.append(dict(what=what, **d, **ctx))

    # the harness's own evaluation of the mapped grid: does the last node overshoot the asymptote of the mapping?
    bb = zm / (math.exp(-z0 / h) - math.exp(-zm / h))
    aa = bb * math.exp(-z0 / h)
    zetamx = aa - bb * math.exp(-zmx / h)
    nnodes = len(np.arange(0.0, zetamx + zm / n, zm / n))
    overshoot = (nnodes - 1) * (zm / n) >= aa
    ctx["overshoots_asymptote"] = bool(overshoot)

    # ---- 3. grid
    ok_grid = True
    if not (len(z) == len(u) == len(v) == len(Kx) == len(Ky) == len(Kz)) or len(z) < n + 1:
        bad("profile_lengths", lens=[len(a) for a in (z, u, v, Kx, Ky, Kz)])
        return {"evals": 1, "nontrivial": True, "sig": str(ctx), "violations": viol, "counters": counters}
    if not np.all(np.isfinite(z)):
        bad("grid_not_finite", z_tail=z[-3:].tolist(), nan_at=np.where(~np.isfinite(z))[0].tolist()[:5])
        ok_grid = False
    elif not np.all(np.diff(z) > 0):
        bad("grid_not_strictly_increasing", z=z.tolist()[:8])
        ok_grid = False
    if ok_grid:
        resid["z0_rel"] = abs(z[0] - z0) / zm
        resid["zm_rel"] = abs(z[n] - zm) / zm
        if abs(z[0] - z0) > 1e-12 * zm:
            bad("grid_does_not_start_at_z0", z_first=float(z[0]))
        if abs(z[n] - zm) > 1e-12 * zm:
            bad("measurement_height_not_at_index_n", z_n=float(z[n]))
        # the top of the mapped grid is computed as -h log((aa - zeta)/bb): its rounding error is eps*h*exp((zmx-z0)/h)
        reach_tol = 1e-12 + 8 * 2.2e-16 * (h / zmx) * math.exp(min(600.0, (zmx - z0) / h))
        resid["top_shortfall_rel"] = max(0.0, (zmx - z[-1]) / zmx)
        if z[-1] < zmx * (1 - reach_tol):
            bad("grid_does_not_reach_domain_height", z_last=float(z[-1]), target=zmx, tol=reach_tol)
    fin = np.isfinite(z)
    # ---- 1. wind at z_m, direction constant
    sc = ws
    e = max(abs(u[n] - um), abs(v[n] - vm)) / sc
    resid["wind_at_zm_rel"] = e
    if not e <= 1e-10:
        bad("wind_at_measurement_height", got=(float(u[n]), float(v[n])))
    cr = np.abs(u[fin] * vm - v[fin] * um) / (ws * np.maximum(np.hypot(u[fin], v[fin]), 1e-300))
    if cr.size and not np.nanmax(cr) <= 1e-12:
        bad("wind_direction_changes_with_height", max_sine=float(np.nanmax(cr)))
    # ---- 2. diffusivities and wind profile from similarity theory (harness's own formulas)
    zz = z[fin]
    if closure in ("MOST", "MOSTM"):
        Kref = KAP * ustar * zz / gen.phi_c(zz / L) / prsc
        Uref = ustar / KAP * (np.log(zz / z0) + gen.psi_m(zz / L))
    elif closure == "CONSTANT":
        Kref = KAP * ustar * zm / prsc * np.ones_like(zz)
        Uref = ws * np.ones_like(zz)
    else:
        Kref = CH * CL * zz * math.sqrt(tke)
        Uref = ustar**2 / (CM * CL * math.sqrt(tke)) * np.log(zz / z0)
    e = float(np.max(np.abs(Kz[fin] - Kref) / Kref))
    resid["Kz_formula_rel"] = e
    if not e <= 1e-10:
        bad("Kz_differs_from_similarity_formula", rel=e)
    sp = np.hypot(u[fin], v[fin])
    sgn = np.sign(u[fin] * um + v[fin] * vm)
    e = float(np.max(np.abs(sp * sgn - Uref)) / ws)
    resid["wind_profile_rel"] = e
    if not e <= 1e-10:
        bad("wind_profile_differs_from_similarity_formula", rel=e)
    if not np.all(Kz[fin] > 0):
        bad("Kz_not_strictly_positive", min=float(np.min(Kz[fin])))
    if closure == "MOSTM":
        s2 = u[fin] ** 2 + v[fin] ** 2
        ok = s2 > 0
        ex, ey = Kz[fin][ok] * v[fin][ok] ** 2 / s2[ok], Kz[fin][ok] * u[fin][ok] ** 2 / s2[ok]
        e = float(max(np.max(np.abs(Kx[fin][ok] - ex) / Kz[fin][ok]), np.max(np.abs(Ky[fin][ok] - ey) / Kz[fin][ok]))) if ok.any() else 0.0
        resid["mostm_split_rel"] = e
        if not e <= 1e-12 or np.any(Kx[fin][ok] < 0) or np.any(Ky[fin][ok] < 0):
            bad("MOSTM_horizontal_diffusivities", rel=e)
    else:
        if not (np.array_equal(Kx, Kz, equal_nan=True) and np.array_equal(Ky, Kz, equal_nan=True)):
            bad("isotropic_closure_not_isotropic")
    # ---- 4. round trip ustar -> z0 -> ustar
    if closure != "OAAHOC" and ok_grid and roundtrip:
        kw2 = {k: v_ for k, v_ in kw.items() if k not in ("ustar", "z0")}
        kw2["z0" if forcing == "ustar" else "ustar"] = float(z[0]) if forcing == "ustar" else ustar
        with warnings.catch_warnings():
            warnings.simplefilter("ignore")
            with np.errstate(all="ignore"):
                z2, p2 = vertical_profiles(n, zm, (um, vm), **kw2)
        counters["vertical_profiles_calls"] += 1
        counters["roundtrips"] += 1
        if len(z2) != len(z):
            bad("roundtrip_changes_grid_size", n1=len(z), n2=len(z2))
        else:
            e = float(np.max(np.abs(np.asarray(z2) - z)) / zm)
            for a, b_ in zip(p2, (u, v, Kx, Ky, Kz)):
                scale = float(np.max(np.abs(b_))) or 1.0
                e = max(e, float(np.max(np.abs(np.asarray(a, dtype=float) - b_)) / scale))
            resid["roundtrip_rel"] = e
            # z[0] is produced by the exp-map with absolute rounding error ~eps*h, i.e. relative eps*h/z0 in z0
            rt_tol = 1e-10 + 100 * 2.2e-16 * h / z0
            if not e <= rt_tol:
                bad("ustar_z0_roundtrip", rel=e, tol=rt_tol)
    # integer-typed arguments (what YAML or a script yields for 'z_m: 10', 'wind: (3, 1)') must give the float-typed result
    if do_int:
        zi = max(2, int(round(zm)))
        wi = (int(round(um)) or 1, int(round(vm)) or -1)
        Li = int(round(L)) if abs(L) < 1e8 else 10**9
        kwf = dict(mol=float(Li), prsc=prsc, closure=closure)
        kwi = dict(mol=Li, prsc=prsc, closure=closure)
        if tke is not None:
            kwf["tke"], kwi["tke"] = 2.0, 2
        if forcing == "ustar":
            kwf["ustar"], kwi["ustar"] = 1.0 * max(0.25, round(ustar, 2)), max(0.25, round(ustar, 2))
        else:
            kwf["z0"], kwi["z0"] = 1.0, 1
        ok_int = True
        try:
            with warnings.catch_warnings():
                warnings.simplefilter("ignore")
                with np.errstate(all="ignore"):
                    zf, pf = vertical_profiles(int(n), float(zi), (float(wi[0]), float(wi[1])), **kwf)
        except Exception:
            ok_int = False  # the float-typed reference itself is outside the domain (e.g. derived z0 >= z_m)
        if ok_int and len(zf) > n and np.all(np.isfinite(zf)):
            for tname, T in (("int", int), ("np.int64", np.int64), ("np.int32", np.int32)):
                counters["vertical_profiles_calls"] += 1
                try:
                    with warnings.catch_warnings():
                        warnings.simplefilter("ignore")
                        with np.errstate(all="ignore"):
                            zt, pt = vertical_profiles(T(n), T(zi), (T(wi[0]), T(wi[1])), **{k_: (T(v_) if k_ in ("mol", "tke", "z0") and float(v_).is_integer() else v_) for k_, v_ in kwi.items()})
                except Exception as e:  # noqa
                    bad("integer_typed_arguments_raise", type=tname, exc=repr(e)[:160])
                    continue
                same_ = len(zt) == len(zf) and np.allclose(zt, zf, rtol=1e-13, atol=0) and all(
                    np.allclose(np.asarray(a_, dtype=float), np.asarray(b__, dtype=float), rtol=1e-12, atol=1e-300) for a_, b__ in zip(pt, pf))
                if not same_:
                    bad("integer_typed_arguments_change_the_profiles", type=tname, values=dict(n=int(n), zm=zi, wind=wi, **{k_: repr(v_) for k_, v_ in kwi.items()}))
            counters["int_typed_cases"] = counters.get("int_typed_cases", 0) + 1
    stab = "neutral" if abs(L) >= 1e8 else ("stable" if L > 0 else "unstable")
    b = {f"closure:{closure}": 1, f"forcing:{forcing}": 1, f"stab:{stab}": 1, f"grid:{gridp}": 1,
         f"n:{'1' if n == 1 else '2-8' if n <= 8 else '9-64'}": 1}
    if overshoot:
        b["overshoot_regime"] = 1
    return {"evals": counters["vertical_profiles_calls"], "nontrivial": True,
            "sig": f"{closure}|{forcing}|{n}|{zm:.4f}|{ws:.3f}|{wd:.2f}|{L:.3g}|{prsc:.3f}|{gridp}|{zmx:.3f}|{h:.3f}",
            "buckets": b, "resid": resid, "counters": counters, "violations": viol,
            "sample": {k: ctx[k] for k in ("closure", "n", "zm", "wind", "forcing", "ustar", "z0", "L", "prsc", "grid")} | {"nodes": len(z), "z_top": float(z[-1])}}


def run_stability(case):
    import numpy as np
    from scipy.integrate import quad
    from bldfm import pbl_model as PM
    from bldfm import ffm_kormann_meixner as KM
    from vlib import gen

    rng = gen.rng_for(case["seed"], "C09s", case["idx"])
    viol, resid = [], {"psi_quadrature": 0.0, "psi_vs_reference_model": 0.0, "phi_vs_reference_model": 0.0}
    counters = {"psi_calls": 0, "phi_calls": 0, "quadratures": 0}

    def phim(t):
        return (1 - 16 * t) ** -0.25 if t < 0 else 1 + 5 * t

    xs = np.concatenate([rng.uniform(-5, 2, 20), -(10 ** rng.uniform(-8, 0.7, 10)), 10 ** rng.uniform(-8, 0.3, 10)])
    for x in xs:
        x = float(x)
        ref, err = quad(lambda t: (phim(t) - 1) / t if t != 0 else (4.0 if x < 0 else 5.0), 0, x, epsabs=1e-13, epsrel=1e-12, limit=200)
        counters["quadratures"] += 1
        got = float(PM.psi(x))
        counters["psi_calls"] += 1
        e = abs(got - ref)
        resid["psi_quadrature"] = max(resid["psi_quadrature"], e)
        if e > 1e-8:
            viol.append({"what": "psi_is_not_integral_of_flux_gradient_function", "x": x, "psi": got, "quadrature": ref})
    # array and scalar forms agree
    arr = PM.psi(xs)
    if not np.allclose(arr, [float(PM.psi(float(x))) for x in xs], rtol=0, atol=1e-15):
        viol.append({"what": "psi_array_vs_scalar"})
    # continuity through neutral
    for eps in 10.0 ** -np.arange(1, 15):
        for s in (-1, 1):
            counters["psi_calls"] += 1
            counters["phi_calls"] += 1
            if abs(float(PM.psi(s * eps))) > 6 * eps:
                viol.append({"what": "psi_discontinuous_at_neutral", "x": s * eps, "psi": float(PM.psi(s * eps))})
            if abs(float(PM.phi(s * eps)) - 1) > 9 * eps:
                viol.append({"what": "phi_discontinuous_at_neutral", "x": s * eps, "phi": float(PM.phi(s * eps))})
    if float(PM.psi(0.0)) != 0.0 or float(PM.phi(0.0)) != 1.0:
        viol.append({"what": "neutral_values", "psi0": float(PM.psi(0.0)), "phi0": float(PM.phi(0.0))})
    # the harness's own functions, and the reference model's copies
    zm = rng.uniform(1, 50, 40)
    L = np.where(rng.random(40) < 0.5, -1, 1) * 10 ** rng.uniform(0.7, 9, 40)
    e1 = float(np.max(np.abs(PM.psi(zm / L) - KM._psiM(zm, L))))
    e2 = float(np.max(np.abs(PM.phi(zm / L) - KM._phiC(zm, L))))
    e3 = float(np.max(np.abs(PM.psi(zm / L) - gen.psi_m(zm / L))))
    e4 = float(np.max(np.abs(PM.phi(zm / L) - gen.phi_c(zm / L))))
    counters["psi_calls"] += 2
    counters["phi_calls"] += 2
    resid["psi_vs_reference_model"], resid["phi_vs_reference_model"] = e1, e2
    if e1 > 1e-12 or e2 > 1e-12:
        viol.append({"what": "disagrees_with_reference_model_copy", "psi": e1, "phi": e2})
    if e3 > 1e-12 or e4 > 1e-12:
        viol.append({"what": "disagrees_with_businger_dyer", "psi": e3, "phi": e4})
    return {"evals": counters["psi_calls"] + counters["phi_calls"], "nontrivial": True, "sig": f"stability|{case['idx']}",
            "buckets": {"stability_functions": 1}, "resid": resid, "counters": counters, "violations": viol}


def classify(case, v):
    # the exp-mapped grid overshoots its asymptote (non-default domain_height/stretch, few layers): top node NaN
    if v.get("what") in ("grid_not_finite",) and v.get("overshoots_asymptote") and v.get("grid") != "default":
        return "grid_overshoot_nan"
    if v.get("overshoots_asymptote") and v.get("grid") != "default" and v.get("what") in (
        "Kz_differs_from_similarity_formula", "wind_profile_differs_from_similarity_formula", "Kz_not_strictly_positive",
        "grid_does_not_reach_domain_height", "ustar_z0_roundtrip", "MOSTM_horizontal_diffusivities"):
        return "grid_overshoot_nan"
    return None
