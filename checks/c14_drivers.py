"""C14 - timeseries, multi-tower and parallel runs equal the individual single runs.

History/schedule monitor.  Model: the table {(tower, step): run_bldfm_single}
computed serially in the checking process.  Schedule injection: the module-level
run_bldfm_single is wrapped before the pool forks; the wrapper logs
{pid, tower, step, t_start, t_end} and sleeps a per-task delay (random or
adversarial: first-submitted task slowest).  The offline checker reads the log and
counts distinct completion orders actually observed.
"""

import json
import os
import time

ID = "C14"
LEVEL = "exploration"
RULE = (
    "shapes (towers x steps) in {1x1, 1x4, 3x1, 2x3, 4x2} x strategies {towers, time, both} x workers {1, 2, 3, 5} x delay schemes {none, "
    "random, adversarial} x parent NUM_THREADS {1, 4} (the parent first solves with that many threads; that its thread pool is really running before the fork is observed through numba.threading_layer()) x kernel cache {warm in two worlds: seeded single-thread-first / multi-thread-first, empty (first use, in a subprocess)} x cache {off, on + explicit halo, on + default halo} x timestamps {none, ISO, not lexicographically ordered, repeated, descending, free labels} x {distinct towers, twin towers "
    "at one position/height, equal-height towers at different positions, repeated met conditions}; plus the serial timeseries and multitower drivers.  Every entry is compared with "
    "the serially computed single run (fields within 1e-12 of the maximum, bitwise counted; names, order, timestamps, params exactly). "
    "non-trivial = parallel call with >= 2 tasks; distinct = distinct (case idx, strategy, workers, delay scheme); completion orders "
    "observed in the worker log are reported and a strategy never seen completing out of submission order is inconclusive"
)
ASSUMPTIONS = [
    "ProcessPoolExecutor uses the fork start method (Python 3.12 on Linux), so the wrapper installed in the parent is what the workers run",
    "a driver call that does not return within the shard watchdog is reported INCONCLUSIVE, not as a violation",
]
MIN_NONTRIVIAL = {"quick": 150, "thorough": 3600}
TIMEOUT = {"quick": 1500, "thorough": 7000}
SHAPES = [(1, 1), (1, 4), (3, 1), (2, 3), (4, 2)]
MAX_SHARDS = 12


def cases(tier, seed):
    n = 40 if tier == "quick" else 1200
    out = [{"seed": seed, "idx": i, "shape": SHAPES[i % len(SHAPES)], "_cost": SHAPES[i % len(SHAPES)][0] * SHAPES[i % len(SHAPES)][1] + 2}
           for i in range(n)]
    # first use on a machine: empty kernel cache, the parent solves with several threads, then the parallel driver forks
    for j, strat in enumerate(("towers", "time", "both") if tier == "quick" else ("towers", "time", "both") * 4):
        out.append({"seed": seed, "idx": 100000 + j, "kind": "cold", "strategy": strat, "parent_threads": 4 if j % 2 == 0 or tier == "quick" else 2,
                    "_cost": 30})
    return out


def make_config(rng, nt, ns, cache_mode, twins, repeats):
    import math
    from bldfm.config_parser import parse_config_dict

    nx, ny = 16, 12
    xmax, ymax = 160.0, 96.0
    one_row = bool(rng.random() < 0.12)
    if one_row:
        # a vertical-plane (crosswind-integrated) set-up: one row of cells
        ny, ymax = 1, 8.0
    ref_lat, ref_lon = 48.0, 9.0
    R = 6_371_000.0
    towers = []
    for k in range(nt):
        if twins == "twins" and k > 0:
            x, y, zm = towers_xy[0]
        elif twins == "same_height" and k > 0:
            x, y, zm = float(rng.uniform(20, 140)), float(rng.uniform(10, 80)), towers_xy[0][2]
        else:
            x, y, zm = float(rng.uniform(20, 140)), float(rng.uniform(10, 80)), float(rng.uniform(3, 8))
        if k == 0:
            towers_xy = [(x, y, zm)]
        if one_row:
            y = 0.0
        towers.append({"name": f"{'ZYXW'[k]}tower{k}", "lat": ref_lat + math.degrees(y / R),
                       "lon": ref_lon + math.degrees(x / (R * math.cos(math.radians(ref_lat)))), "z_m": zm})
    if repeats and ns >= 2:
        base = [float(rng.uniform(0, 360)) for _ in range((ns + 1) // 2)]
        wdir = (base * 2)[:ns]
        wsp = [3.0] * ns
        us = [0.35] * ns
        mol = [-120.0] * ns
    elif ns >= 2 and rng.random() < 0.2:
        # a slowly drifting series: consecutive records differ by a few tenths of a degree / a few thousandths, the other fields are constant
        d0, u0 = float(rng.uniform(0, 359)), float(rng.uniform(0.3, 0.5))
        wdir = [d0 + 0.3 * k for k in range(ns)]
        wsp = [3.0] * ns
        us = [u0 * (1 + 4e-4 * k) for k in range(ns)]
        mol = [-120.0] * ns
    else:
        wdir = [float(rng.uniform(0, 360)) for _ in range(ns)]
        wsp = [float(rng.uniform(2, 6)) for _ in range(ns)]
        us = [float(rng.uniform(0.25, 0.5)) for _ in range(ns)]
        mol = [float(rng.choice([-1, 1]) * rng.uniform(60, 400)) for _ in range(ns)]
    met = {"wind_dir": wdir if ns > 1 else wdir[0], "wind_speed": wsp if ns > 1 else wsp[0], "ustar": us if ns > 1 else us[0],
           "mol": mol if ns > 1 else mol[0]}
    tk = str(rng.choice(["none", "iso", "unpadded_hours", "repeated", "descending", "labels"]))
    if tk == "iso":
        met["timestamps"] = [f"2024-02-{d + 1:02d}T06:00" for d in range(ns)]
    elif tk == "unpadded_hours":  # do not sort lexicographically in series order
        met["timestamps"] = [f"2024-06-01 {8 + d}:00" for d in range(ns)]
    elif tk == "repeated":
        met["timestamps"] = [f"day{d // 2}" for d in range(ns)]
    elif tk == "descending":
        met["timestamps"] = [f"2024-02-{28 - d:02d}" for d in range(ns)]
    elif tk == "labels":
        met["timestamps"] = ["morning", "noon", "evening", "night"][:ns]
    dom = {"nx": nx, "ny": ny, "xmax": xmax, "ymax": ymax, "nz": int(rng.integers(4, 9)), "ref_lat": ref_lat, "ref_lon": ref_lon,
           "modes": [16, 12]}
    if one_row:
        dom["modes"] = [512, 512]   # an odd padded size takes no even mode count: every component is kept
    if cache_mode != "on_default_halo":
        dom["halo"] = float(rng.choice([0.0, 20.0, 33.0]))
    if rng.random() < 0.4:
        dom["output_levels"] = [1, dom["nz"]]
    raw = {"domain": dom, "towers": towers, "met": met,
           "solver": {"closure": str(rng.choice(["MOST", "MOSTM"])), "footprint": True, "precision": str(rng.choice(["single", "double"]))},
           "parallel": {"use_cache": cache_mode != "off", "max_workers": 2}}
    if rng.random() < 0.3:
        # concentration (dispersion) runs of the built-in source placed off-centre
        raw["solver"]["footprint"] = False
        raw["solver"]["src_loc"] = [float(rng.uniform(0.15, 0.85) * xmax), float(rng.uniform(0.15, 0.85) * ymax)]
        raw["solver"]["surface_flux_shape"] = str(rng.choice(["diamond", "circle", "point"]))
    raw["_timestamps_kind"] = tk
    raw["_one_row"] = one_row
    cfg = parse_config_dict({k: v for k, v in raw.items() if not k.startswith("_")})
    raw["_tower_moved_by_hand"] = None
    if twins == "distinct" and rng.random() < 0.3:
        # a mast moved by the user after the configuration was built (its local coordinates edited, lat / lon left as they were): every
        # driver computes for the tower where it now stands
        t_ = cfg.towers[int(rng.integers(len(cfg.towers)))]
        t_.x, t_.y = float(rng.uniform(20, 140)), float(rng.uniform(10, 80))
        raw["_tower_moved_by_hand"] = t_.name
    return cfg, raw


COLD = r"""
import json, os, sys, warnings
warnings.simplefilter("ignore")
from vlib import boot; boot.boot()
import numpy as np, numba
import bldfm
from bldfm import config as rc
from bldfm.config_parser import parse_config_dict
strat, pth = sys.argv[1], int(sys.argv[2])
cfg = parse_config_dict({"domain": {"nx": 16, "ny": 12, "xmax": 160.0, "ymax": 96.0, "nz": 6, "modes": [16, 12], "halo": 20.0, "ref_lat": 48.0, "ref_lon": 9.0},
    "towers": [{"name": "A", "lat": 48.0003, "lon": 9.0006, "z_m": 4.0}, {"name": "B", "lat": 48.0005, "lon": 9.0012, "z_m": 6.0}],
    "met": {"ustar": [0.3, 0.45], "mol": [-150.0, 300.0], "wind_speed": [3.0, 4.0], "wind_dir": [200.0, 75.0]},
    "solver": {"closure": "MOST", "footprint": True}})
out = {"violations": [], "pool_live": False}
rc.NUM_THREADS = pth
bldfm.run_bldfm_single(cfg, cfg.towers[0], met_index=0)      # the parent's multi-thread solve (compiles the threaded kernel: cache is empty)
try:
    out["layer"] = numba.threading_layer(); out["pool_live"] = True
except Exception as e:
    out["layer"] = None
try:
    res = bldfm.run_bldfm_parallel(cfg, max_workers=2, parallel_over=strat)
except BaseException as e:
    out["violations"].append({"what": "parallel_driver_raises", "exc": f"{type(e).__name__}: {str(e)[:300]}"})
    res = None
rc.NUM_THREADS = 1
n = 0
if res is not None:
    if list(res) != ["A", "B"]:
        out["violations"].append({"what": "tower_keys_not_in_configuration_order", "got": list(res)})
    for tw in cfg.towers:
        for i in range(2):
            exp = bldfm.run_bldfm_single(cfg, tw, met_index=i)
            got = (res.get(tw.name) or [None, None])[i]
            n += 1
            if got is None or got.get("timestamp") != exp["timestamp"] or got.get("tower_name") != tw.name:
                out["violations"].append({"what": "entry_filed_under_wrong_tower_or_step", "tower": tw.name, "step": i})
                continue
            for k in ("conc", "flx"):
                a, b = np.asarray(got[k]), np.asarray(exp[k])
                if a.shape != b.shape or not np.max(np.abs(a - b)) <= 1e-12 * (np.max(np.abs(b)) or 1.0):
                    out["violations"].append({"what": "entry_differs_from_single_run", "tower": tw.name, "step": i, "field": k})
out["entries"] = n
print("COLD-RESULT " + json.dumps(out))
"""


def run_cold(case):
    """First use: a subprocess with an EMPTY numba cache directory; the parent solves with several threads (this compiles
    and caches the threaded kernel and starts the numba thread pool), then run_bldfm_parallel forks its workers."""
    import subprocess
    import sys
    import tempfile

    d = tempfile.mkdtemp(prefix="c14cold", dir=os.getcwd())
    env = dict(os.environ, NUMBA_CACHE_DIR=os.path.join(d, "nb"))
    strat, pth = case["strategy"], case["parent_threads"]
    ctx = dict(strategy=strat, workers=2, options=dict(kernel_cache="empty", parent_threads=pth, shape=(2, 2)))
    try:
        r = subprocess.run([sys.executable, "-c", COLD, strat, str(pth)], env=env, cwd=d, capture_output=True, text=True, timeout=1200)
    except subprocess.TimeoutExpired:
        return {"harness_error": "cold-cache subprocess exceeded 1200 s (watchdog; inconclusive)"}
    line = [l for l in r.stdout.splitlines() if l.startswith("COLD-RESULT ")]
    if not line:
        return {"evals": 1, "nontrivial": True, "sig": [f"cold|{strat}|{pth}"], "buckets": {"kernel_cache:empty": 1},
                "violations": [dict(what="parallel_driver_raises", exc=f"process died rc={r.returncode}: " + r.stderr[-300:], **ctx)]}
    o = json.loads(line[0][len("COLD-RESULT "):])
    viol = [dict(v, **ctx) for v in o["violations"]]
    b = {"kernel_cache:empty": 1, f"strategy:{strat}": 1, "parent_threads:%d" % pth: 1}
    if o["pool_live"]:
        b["parent_thread_pool_live_before_fork"] = 1
    return {"evals": max(1, o.get("entries", 0)), "nontrivial": True, "sig": [f"cold|{strat}|{pth}"], "buckets": b,
            "counters": {"driver_calls": 1, "parallel_calls": 1, "entries_compared": o.get("entries", 0), "cold_cache_runs": 1},
            "violations": viol, "sample": dict(ctx, threading_layer=o.get("layer"))}


def run_case(case):
    import shutil
    import warnings

    if case.get("kind") == "cold":
        return run_cold(case)

    import numpy as np
    import bldfm
    import bldfm.interface as iface
    from bldfm import config as rc
    from vlib import gen

    rng = gen.rng_for(case["seed"], "C14", case["idx"])
    nt, ns = case["shape"]
    cache_mode = str(rng.choice(["off", "off", "on_explicit_halo", "on_default_halo"]))
    twins = str(rng.choice(["distinct", "twins", "same_height"])) if nt >= 2 else "distinct"
    repeats = bool(ns >= 2 and rng.random() < 0.4)
    parent_threads = int(rng.choice([1, 4]))
    cfg, raw = make_config(rng, nt, ns, cache_mode, twins, repeats)
    import copy as _copy

    cfg_given = _copy.deepcopy(cfg)
    viol, sigs = [], []
    counters = {"driver_calls": 0, "parallel_calls": 0, "entries_compared": 0, "entries_bitwise": 0, "worker_log_records": 0,
                "out_of_order_completions": 0, "distinct_worker_pids": 0}
    buckets = {}
    orders = set()
    desc = dict(shape=(nt, ns), cache=cache_mode, twins=twins, repeated_met=repeats, parent_threads=parent_threads,
                precision=raw["solver"]["precision"], closure=raw["solver"]["closure"], footprint=raw["solver"]["footprint"])
    warnings.simplefilter("ignore")
    logf = os.path.abspath(f"c14_log_{case['idx']}.jsonl")

    def clean_cache():
        shutil.rmtree(".bldfm_cache", ignore_errors=True)

    # ---------------- model: serial single runs, one thread, no cache
    rc.NUM_THREADS = 1
    table = {}
    for tw in cfg.towers:
        for i in range(ns):
            table[(tw.name, i)] = bldfm.run_bldfm_single(cfg, tw, met_index=i)
    # a caller-supplied surface flux (concentration mode): the serial drivers hand it to every single run (the parallel driver
    # documents that it does not take one, so it is compared with the built-in source only)
    user_flux, table_u = None, None
    if not raw["solver"]["footprint"] and rng.random() < 0.6:
        user_flux = rng.normal(size=(cfg.domain.ny, 16)) + 2.0
        table_u = {(tw.name, i): bldfm.run_bldfm_single(cfg, tw, met_index=i, surface_flux=user_flux) for tw in cfg.towers for i in range(ns)}

    # ---------------- schedule injection
    real_single = iface.run_bldfm_single
    delays = {}

    def wrapped(config, tower, met_index=0, *args, **kwargs):  # signature-agnostic: extra optional arguments pass through
        t0 = time.time()
        d = delays.get((tower.name, met_index), 0.0)
        if d:
            time.sleep(d)
        r = real_single(config, tower, met_index, *args, **kwargs)
        rec = {"pid": os.getpid(), "tower": tower.name, "step": met_index, "t0": t0, "t1": time.time()}
        fd = os.open(logf, os.O_WRONLY | os.O_APPEND | os.O_CREAT)
        os.write(fd, (json.dumps(rec) + "\n").encode())
        os.close(fd)
        return r

    def serial(label, fn, *a_, **k_):
        """a serial driver call for a valid configuration: an exception is a verdict, not a harness error"""
        try:
            return fn(*a_, **k_)
        except Exception as e:  # noqa
            viol.append(dict(what="serial_driver_raises", driver=label, exc=f"{type(e).__name__}: {str(e)[:200]}", options=desc,
                             history="the cache directory is removed between driver calls (a user clearing the cache)"))
            return None

    def compare(label, results, ctx):
        names = [t.name for t in cfg.towers]
        if list(results.keys()) != names:
            viol.append(dict(what="tower_keys_not_in_configuration_order", got=list(results.keys()), expected=names, driver=label, **ctx))
        for nm in names:
            lst = results.get(nm)
            if lst is None or len(lst) != ns:
                viol.append(dict(what="wrong_number_of_steps", tower=nm, got=None if lst is None else len(lst), expected=ns, driver=label, **ctx))
                continue
            for i, r in enumerate(lst):
                exp = table[(nm, i)]
                counters["entries_compared"] += 1
                if not isinstance(r, dict) or any(k_ not in r for k_ in ("conc", "flx", "grid")):
                    # an empty slot (None) or something that is not a result: the entry of this tower and step is missing
                    viol.append(dict(what="entry_missing_or_not_a_result", tower=nm, step=i, got=repr(r)[:80], driver=label, **ctx))
                    continue
                bit = True
                for k in ("conc", "flx"):
                    a, b_ = np.asarray(r[k]), np.asarray(exp[k])
                    if a.shape != b_.shape:
                        viol.append(dict(what="entry_differs_from_single_run", tower=nm, step=i, field=k, shapes=(a.shape, b_.shape), driver=label, **ctx))
                        bit = False
                        continue
                    if not np.array_equal(a, b_):
                        bit = False
                        e = float(np.max(np.abs(a - b_))) / (float(np.max(np.abs(b_))) or 1.0)
                        if not e <= (1e-12 if raw["solver"]["precision"] == "double" else 1e-6):
                            viol.append(dict(what="entry_differs_from_single_run", tower=nm, step=i, field=k, rel=e, driver=label, **ctx))
                for g, ge in zip(r["grid"], exp["grid"]):
                    if not np.array_equal(np.asarray(g), np.asarray(ge)):
                        viol.append(dict(what="entry_differs_from_single_run", tower=nm, step=i, field="grid", driver=label, **ctx))
                        bit = False
                counters["entries_bitwise"] += int(bit)
                if r.get("tower_name") != nm or r.get("timestamp") != exp["timestamp"] or r.get("params") != exp["params"] \
                        or tuple(r.get("tower_xy", ())) != tuple(exp["tower_xy"]):
                    viol.append(dict(what="entry_filed_under_wrong_tower_or_step", tower=nm, step=i, driver=label,
                                     got=dict(tower_name=r.get("tower_name"), timestamp=r.get("timestamp")),
                                     expected=dict(tower_name=nm, timestamp=exp["timestamp"]), **ctx))

        # the entries are independent results, as the single runs are: what a caller does to one entry in place (re-centring its
        # coordinates on the tower, normalising its field) leaves every other entry as it was.  Done last: values are put back.
        ents = [(nm, i, r) for nm in names for i, r in enumerate(results.get(nm) or []) if isinstance(r, dict) and "grid" in r]
        if len(ents) >= 2:
            counters["independence_checks"] = counters.get("independence_checks", 0) + 1
            arrs = [[a for a in (*r["grid"], r["conc"], r["flx"]) if isinstance(a, np.ndarray)] for _, _, r in ents]
            snaps = [[np.array(a, copy=True) for a in row] for row in arrs]
            try:
                for j, (nm, i, r) in enumerate(ents):
                    for a in arrs[j]:
                        if a.flags.writeable:
                            a += 1.0
                    for j2 in range(len(ents)):
                        if j2 != j and any(not np.array_equal(a, b_, equal_nan=True) for a, b_ in zip(arrs[j2], [x + 1.0 if j2 < j else x for x in snaps[j2]])):
                            viol.append(dict(what="entries_share_memory", modified=(nm, i), changed=(ents[j2][0], ents[j2][1]), driver=label, **ctx))
                            raise StopIteration
            except StopIteration:
                pass
            finally:
                for row, srow in zip(arrs, snaps):
                    for a, b_ in zip(row, srow):
                        if a.flags.writeable:
                            a[...] = b_

    # slow-writer injection (cache on): widen the window between creating a cache entry and completing it
    real_savez = np.savez
    slow = {"on": False, "n": 0}

    def slow_savez(file, *a, **k):
        if slow["on"]:
            if isinstance(file, (str, os.PathLike)):
                target = str(file) if str(file).endswith(".npz") else str(file) + ".npz"
                with open(target, "wb") as fh:
                    fh.write(b"PK\x03\x04")  # what a reader sees while a direct write is in flight
                time.sleep(0.02)
            else:
                try:
                    file.write(b"")
                    file.flush()
                except Exception:
                    pass
                time.sleep(0.02)
        return real_savez(file, *a, **k)

    np.savez = slow_savez
    iface.run_bldfm_single = wrapped
    try:
        rc.NUM_THREADS = parent_threads
        if parent_threads > 1:
            # create the parent's thread pool before anything forks
            bldfm.run_bldfm_single(cfg, cfg.towers[0], met_index=0)
            try:
                import numba

                numba.threading_layer()  # raises unless numba's thread pool was really started by that solve
                buckets["parent_thread_pool_live_before_fork"] = 1
            except Exception:
                buckets["parent_thread_pool_NOT_started_by_threaded_solve"] = 1
        # serial drivers (timeseries per tower, multitower), cache as configured
        clean_cache()
        for tw in cfg.towers[:2]:
            ts = serial("run_bldfm_timeseries", iface.run_bldfm_timeseries, cfg, tw)
            if ts is None:
                continue
            counters["driver_calls"] += 1
            compare("run_bldfm_timeseries", {t.name: (ts if t.name == tw.name else [table[(t.name, i)] for i in range(ns)]) for t in cfg.towers},
                    dict(options=desc))
        clean_cache()
        mt = serial("run_bldfm_multitower", iface.run_bldfm_multitower, cfg) or {}
        counters["driver_calls"] += 1
        compare("run_bldfm_multitower", mt, dict(options=desc))
        if user_flux is not None:
            table, table_0 = table_u, table
            try:
                mtu = serial("run_bldfm_multitower", iface.run_bldfm_multitower, cfg, surface_flux=user_flux) or {}
                counters["driver_calls"] += 1
                compare("run_bldfm_multitower", mtu, dict(options=desc, surface_flux="supplied by the caller"))
                tsu = serial("run_bldfm_timeseries", iface.run_bldfm_timeseries, cfg, cfg.towers[0], surface_flux=user_flux) or []
                counters["driver_calls"] += 1
                compare("run_bldfm_timeseries", {t.name: (tsu if t.name == cfg.towers[0].name else [table[(t.name, i)] for i in range(ns)]) for t in cfg.towers},
                        dict(options=desc, surface_flux="supplied by the caller"))
                buckets["surface_flux_supplied_to_serial_drivers"] = 1
            finally:
                table = table_0
        # parallel driver
        combos = [(s, w) for s in ("towers", "time", "both") for w in (1, 2, 3, 5)]
        pick = [combos[i] for i in rng.permutation(len(combos))[: (6 if nt * ns > 1 else 3)]]
        for strat, workers in pick:
            scheme = str(rng.choice(["none", "random", "adversarial"]))
            delays.clear()
            tasks = [(t.name, i) for t in cfg.towers for i in range(ns)]
            if scheme == "random":
                for k in tasks:
                    delays[k] = float(rng.uniform(0, 0.03))
            elif scheme == "adversarial":
                for r_, k in enumerate(tasks):
                    delays[k] = 0.05 * (1 - r_ / max(1, len(tasks)))
            if cache_mode != "off" and rng.random() < 0.5:
                pass  # keep the directory written by earlier calls: cross-call, cross-process reuse
            else:
                clean_cache()
            if os.path.exists(logf):
                os.unlink(logf)
            slow["on"] = cache_mode != "off" and scheme != "none"
            ctx = dict(strategy=strat, workers=workers, delays=scheme, slow_cache_writer=slow["on"], options=desc)
            if slow["on"]:
                buckets["slow_cache_writer"] = buckets.get("slow_cache_writer", 0) + 1
            if rng.random() < 0.3:
                # a failed call first (a mistyped strategy, with a flux map the caller happened to pass): whatever the driver set up for
                # it must not leak into the next, well-formed call
                try:
                    iface.run_bldfm_parallel(cfg, max_workers=workers, parallel_over=strat + "s" if strat != "towers" else "tower",
                                             surface_flux=rng.random((cfg.domain.ny, cfg.domain.nx)) + 5.0)
                    counters["mistyped_strategy_accepted"] = counters.get("mistyped_strategy_accepted", 0) + 1
                except Exception:  # noqa
                    counters["failed_calls_before_a_good_one"] = counters.get("failed_calls_before_a_good_one", 0) + 1
                ctx["history"] = "after a call that raised (unknown strategy, surface_flux given)"
            try:
                res = iface.run_bldfm_parallel(cfg, max_workers=workers, parallel_over=strat)
            except BaseException as e:  # noqa
                viol.append(dict(what="parallel_driver_raises", exc=f"{type(e).__name__}: {str(e)[:200]}", **ctx))
                continue
            counters["driver_calls"] += 1
            counters["parallel_calls"] += 1
            compare("run_bldfm_parallel", res, ctx)
            # offline check of the worker log: who ran what, in which order did tasks complete
            recs = [json.loads(l) for l in open(logf)] if os.path.exists(logf) else []
            counters["worker_log_records"] += len(recs)
            got = sorted((r["tower"], r["step"]) for r in recs)
            # how the driver hands the work to run_bldfm_single is its own business (a driver may, for instance, give each worker a
            # one-step configuration): what was executed where is recorded as a diagnostic, the verdict is on what comes back
            if got != sorted(tasks):
                counters["runs_whose_logged_tasks_differ_from_the_task_matrix"] = counters.get("runs_whose_logged_tasks_differ_from_the_task_matrix", 0) + 1
            pids = {r["pid"] for r in recs}
            counters["distinct_worker_pids"] = max(counters["distinct_worker_pids"], len(pids))
            if os.getpid() in pids:
                counters["runs_with_a_task_executed_in_the_parent"] = counters.get("runs_with_a_task_executed_in_the_parent", 0) + 1
            if strat == "towers":
                done = {}
                for r in recs:
                    done[r["tower"]] = max(done.get(r["tower"], 0), r["t1"])
                sub = [t.name for t in cfg.towers]
                comp = sorted(sub, key=lambda n_: done.get(n_, 0))
            else:
                sub = tasks if strat == "both" else None
                comp = [(r["tower"], r["step"]) for r in sorted(recs, key=lambda r: r["t1"])]
                if strat == "time":
                    # pools are per tower: order within each tower
                    comp = [c for t in cfg.towers for c in comp if c[0] == t.name]
                    sub = tasks
            ooo = comp != sub
            if ooo:
                counters["out_of_order_completions"] += 1
                buckets[f"out_of_order:{strat}"] = buckets.get(f"out_of_order:{strat}", 0) + 1
            orders.add(f"{strat}|{comp}")
            buckets[f"strategy:{strat}"] = buckets.get(f"strategy:{strat}", 0) + 1
            buckets[f"workers:{workers}{'>tasks' if workers > len(tasks) else ''}"] = 1
            buckets[f"delays:{scheme}"] = 1
            if len(tasks) >= 2:
                sigs.append(f"{case['idx']}|{strat}|{workers}|{scheme}")
        # the same configuration object edited in place (a user's sweep: "cfg.met.wind_dir = ...", a mast moved) and handed to the parallel
        # driver again, same worker count: the second run is the run of the configuration as it is now
        if case["idx"] % 3 == 0 and pick:
            strat2, workers2 = pick[-1]
            delays.clear()
            slow["on"] = False
            wd_ = cfg.met.wind_dir
            cfg.met.wind_dir = [float((d_ + 57.0) % 360.0) for d_ in wd_] if isinstance(wd_, list) else float((wd_ + 57.0) % 360.0)
            cfg.towers[0].x = float(cfg.towers[0].x + 10.0)
            cfg_given = _copy.deepcopy(cfg)
            rc.NUM_THREADS = 1
            iface.run_bldfm_single = real_single
            table = {(tw.name, i): bldfm.run_bldfm_single(cfg, tw, met_index=i) for tw in cfg.towers for i in range(ns)}
            iface.run_bldfm_single = wrapped
            clean_cache()
            ctx2 = dict(strategy=strat2, workers=workers2, options=desc, history="second parallel run on the same configuration object after wind_dir and a tower were edited in place")
            try:
                res2 = iface.run_bldfm_parallel(cfg, max_workers=workers2, parallel_over=strat2)
                counters["parallel_calls_after_in_place_edits"] = counters.get("parallel_calls_after_in_place_edits", 0) + 1
                compare("run_bldfm_parallel", res2, ctx2)
            except BaseException as e:  # noqa
                viol.append(dict(what="parallel_driver_raises", exc=f"{type(e).__name__}: {str(e)[:200]}", **ctx2))
    finally:
        np.savez = real_savez
        iface.run_bldfm_single = real_single
        rc.NUM_THREADS = 1
        clean_cache()
        if os.path.exists(logf):
            os.unlink(logf)
    if cfg != cfg_given:
        # the drivers were handed the caller's configuration: it comes back as it was given (a mast moved by hand stays where it was put)
        viol.append({"what": "driver_changes_the_callers_configuration", "towers_before": [(t.name, t.x, t.y) for t in cfg_given.towers],
                     "towers_after": [(t.name, t.x, t.y) for t in cfg.towers], "options": desc})
    if raw.get("_tower_moved_by_hand"):
        buckets["tower_moved_by_hand"] = 1
    if raw.get("_one_row"):
        buckets["domain:one_row_of_cells"] = 1
    buckets[f"timestamps:{raw['_timestamps_kind']}"] = 1
    buckets.update({f"shape:{nt}x{ns}": 1, f"cache:{cache_mode}": 1, f"parent_threads:{parent_threads}": 1})
    buckets[f"towers:{twins}"] = 1
    buckets["mode:footprint" if raw["solver"]["footprint"] else "mode:dispersion_off_centre_source"] = 1
    if repeats:
        buckets["repeated_met"] = 1
    counters["distinct_completion_orders"] = len(orders)
    return {"evals": counters["entries_compared"], "nontrivial": bool(sigs), "sig": sigs, "buckets": buckets, "counters": counters,
            "violations": viol, "sample": dict(desc, completion_orders=sorted(orders)[:3])}


def finalize(results, tier):
    inc = []
    b = {}
    for r in results:
        for k, v in r.get("buckets", {}).items():
            b[k] = b.get(k, 0) + v
    for strat in ("towers", "time", "both"):
        if b.get(f"strategy:{strat}", 0) and not b.get(f"out_of_order:{strat}", 0):
            inc.append(f"no out-of-order completion was observed for strategy '{strat}': the any-completion-order clause was not exercised")
    if b.get("parent_threads:4", 0) and not b.get("parent_thread_pool_live_before_fork", 0):
        inc.append("no driver call was made from a parent whose numba thread pool was really running (the multi-thread solve in the parent "
                   "did not start one): the any-thread-setting-of-the-parent clause was not exercised")
    return {"inconclusive": inc}
